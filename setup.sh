#!/bin/bash
# MANIFEST.setup_cmd: offline. Verifies the dependencies the checks import and warms the
# numba JIT cache for /repo's current sources (so each quick check starts in ~20 s).
set -e
cd "$(dirname "$(readlink -f "$0")")"
export PIP_NO_INDEX=1
PY=/venv/bin/python
if ! $PY -c "import hypothesis" 2>/dev/null; then
  /venv/bin/pip install --no-index --find-links /opt/veriftools/wheels hypothesis
fi
$PY -c "import hypothesis, msprime, tskit, numpy, scipy, numba, mpmath, tsinfer; print('deps ok', hypothesis.__version__)"
mkdir -p .cache evidence
# drop JIT caches of older source states
ls -dt .cache/numba/* 2>/dev/null | tail -n +4 | xargs -r rm -rf
./check WARM
