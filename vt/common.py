"""Helpers shared by the property modules."""

import os
import traceback

import numpy as np
import tskit

REPO = os.path.realpath(os.environ.get("VT_REPO", "/repo"))


def exc_key(e):
    """(type, innermost tsdate frame, message prefix): one root cause per key."""
    tb = traceback.extract_tb(e.__traceback__)
    where = "?"
    for fr in reversed(tb):
        fn = os.path.realpath(fr.filename)
        if fn.startswith(os.path.join(REPO, "tsdate")):
            where = f"{os.path.basename(fn)}:{fr.name}"
            break
    msg = str(e).strip().split("\n")[0]
    msg = "".join(ch if not ch.isdigit() else "#" for ch in msg)[:60]
    return f"{type(e).__name__}@{where}:{msg}"


def call(fn, *args, **kwargs):
    """Returns (status, value): ok/result, rejected/exception (ValueError or
    NotImplementedError: the documented rejection classes), internal/exception."""
    try:
        return "ok", fn(*args, **kwargs)
    except (ValueError, NotImplementedError) as e:
        if type(e) in (ValueError, NotImplementedError):
            return "rejected", e
        return "internal", e
    except Exception as e:
        return "internal", e


def node_is_sample(ts):
    return (ts.nodes_flags & tskit.NODE_IS_SAMPLE).astype(bool)


def rel_err(a, b):
    a = np.asarray(a, dtype=float)
    b = np.asarray(b, dtype=float)
    scale = np.maximum(np.abs(a), np.abs(b))
    with np.errstate(invalid="ignore", divide="ignore"):
        r = np.where(scale > 0, np.abs(a - b) / scale, 0.0)
    both_nan = np.isnan(a) & np.isnan(b)
    r = np.where(both_nan, 0.0, r)
    r = np.where(np.isnan(r), np.inf, r)
    return r


def max_rel_err(a, b):
    r = rel_err(a, b)
    return float(r.max()) if r.size else 0.0


def node_metadata_mn_vr(ts):
    """decode mn/vr from node metadata; NaN where absent"""
    mn = np.full(ts.num_nodes, np.nan)
    vr = np.full(ts.num_nodes, np.nan)
    for u in ts.nodes():
        md = u.metadata
        if isinstance(md, dict):
            if "mn" in md:
                mn[u.id] = md["mn"]
            if "vr" in md:
                vr[u.id] = md["vr"]
    return mn, vr
