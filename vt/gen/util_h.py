"""
Generators and table-level oracles shared by C28-C31 (preprocess_ts, split_disjoint_nodes,
unary-node detection, site times).  Everything here is computed from the edge/node tables
or with tskit only: nothing calls the tsdate functions under test.
"""

import json

import msprime
import numpy as np
import tskit
from hypothesis import strategies as st

from vt.gen import ts as G

# --------------------------------------------------------------------------
# table-level oracles
# --------------------------------------------------------------------------


def node_pieces(ts):
    """node -> list of maximal [l, r) intervals covered by the union of its edges (as parent or
    child); two intervals that touch (l == previous r) are one piece."""
    iv = [[] for _ in range(ts.num_nodes)]
    for l, r, p, c in zip(ts.edges_left, ts.edges_right, ts.edges_parent, ts.edges_child):
        iv[p].append((l, r))
        iv[c].append((l, r))
    out = []
    for lst in iv:
        lst.sort()
        merged = []
        for l, r in lst:
            if merged and l <= merged[-1][1]:
                if r > merged[-1][1]:
                    merged[-1][1] = r
            else:
                merged.append([l, r])
        out.append([(float(a), float(b)) for a, b in merged])
    return out


def squashed_edge_set(left, right, parent, child):
    """set of (l, r, p, c) after merging adjacent intervals of the same (p, c)"""
    by_pc = {}
    for l, r, p, c in zip(left, right, parent, child):
        by_pc.setdefault((int(p), int(c)), []).append((float(l), float(r)))
    out = set()
    for (p, c), lst in by_pc.items():
        lst.sort()
        cur = list(lst[0])
        for l, r in lst[1:]:
            if l == cur[1]:
                cur[1] = r
            else:
                out.add((cur[0], cur[1], p, c))
                cur = [l, r]
        out.add((cur[0], cur[1], p, c))
    return out


def unary_occurrences(ts):
    """list of (node, left, right): maximal intervals over which `node` has exactly one child,
    straight from the edge table (no tskit tree machinery)."""
    if ts.num_edges == 0:
        return []
    L, R, P = ts.edges_left, ts.edges_right, ts.edges_parent
    bps = np.unique(np.concatenate([L, R]))
    occ = []
    open_ = {}
    for i in range(len(bps) - 1):
        x = bps[i]
        mask = (L <= x) & (x < R)
        cnt = np.bincount(P[mask], minlength=ts.num_nodes)
        un = set(np.flatnonzero(cnt == 1).tolist())
        for u in list(open_):
            if u not in un:
                occ.append((u, open_.pop(u), float(x)))
        for u in un:
            open_.setdefault(u, float(x))
    for u, l in open_.items():
        occ.append((u, l, float(bps[-1])))
    return sorted(occ)


def genotype_strings(ts):
    """per site: tuple of allele strings (None = missing) for the samples in order"""
    out = []
    for v in ts.variants(isolated_as_missing=True):
        al = v.alleles
        out.append((float(v.site.position), tuple(None if g < 0 else al[g] for g in v.genotypes)))
    return out


def tree_signature(tree, sample_index):
    """{clade bitmask over sample indices: time of the lowest node with that clade}: the local
    tree restricted to the samples (what simplify keeps), with node times."""
    ts = tree.tree_sequence
    times = ts.nodes_time
    clade = {}
    sig = {}
    for u in tree.nodes(order="postorder"):
        m = 0
        for c in tree.children(u):
            m |= clade.get(c, 0)
        si = sample_index[u]
        if si >= 0:
            m |= 1 << int(si)
        clade[u] = m
        if m:
            t = float(times[u])
            if m not in sig or t < sig[m]:
                sig[m] = t
    return sig


def sample_index_array(ts):
    idx = np.full(ts.num_nodes, -1, dtype=np.int64)
    idx[ts.samples()] = np.arange(ts.num_samples)
    return idx


# --------------------------------------------------------------------------
# mutators
# --------------------------------------------------------------------------


def refinalize(tables):
    tables.sort()
    tables.build_index()
    tables.compute_mutation_parents()
    return tables.tree_sequence()


def splice_unary(ts, edge_pick, a_frac, b_frac, t_frac, as_sample=False):
    """Insert a new node into one edge over a sub-interval: exactly one new unary occurrence.
    Returns (ts, new_node, (a, b)) or None if impossible."""
    if ts.num_edges == 0:
        return None
    e = ts.edge(edge_pick % ts.num_edges)
    tp, tc = ts.nodes_time[e.parent], ts.nodes_time[e.child]
    tu = tc + (tp - tc) * t_frac
    if not (tc < tu < tp):
        return None
    a = e.left + (e.right - e.left) * min(a_frac, b_frac)
    b = e.left + (e.right - e.left) * max(a_frac, b_frac)
    if not (e.left <= a < b <= e.right):
        return None
    tables = ts.dump_tables()
    u = tables.nodes.add_row(flags=tskit.NODE_IS_SAMPLE if as_sample else 0, time=tu,
                             metadata=_empty_md(tables.nodes))
    keep = np.ones(ts.num_edges, dtype=bool)
    keep[e.id] = False
    tables.edges.keep_rows(keep)
    if e.left < a:
        tables.edges.add_row(e.left, a, e.parent, e.child)
    if b < e.right:
        tables.edges.add_row(b, e.right, e.parent, e.child)
    tables.edges.add_row(a, b, e.parent, u)
    tables.edges.add_row(a, b, u, e.child)
    # mutations on the child within [a,b) stay on the child (below the new node): still valid
    tables.mutations.time = np.full(tables.mutations.num_rows, tskit.UNKNOWN_TIME)
    return refinalize(tables), u, (float(a), float(b))


def _empty_md(node_table):
    sch = node_table.metadata_schema
    if sch.schema is None:
        return b""
    try:
        sch.validate_and_encode_row({})
        return {}
    except Exception:
        return b""


def flag_as_sample(ts, node):
    tables = ts.dump_tables()
    fl = tables.nodes.flags
    fl[node] |= tskit.NODE_IS_SAMPLE
    tables.nodes.flags = fl
    return tables.tree_sequence()


def delete_regions(ts, cuts):
    """delete_intervals(simplify=False) between consecutive pairs of sorted cut points"""
    cuts = sorted(set(float(c) for c in cuts if 0 <= c <= ts.sequence_length))
    ivs = [[cuts[i], cuts[i + 1]] for i in range(0, len(cuts) - 1, 2) if cuts[i] < cuts[i + 1]]
    if not ivs:
        return ts, []
    return ts.delete_intervals(ivs, simplify=False, record_provenance=False), ivs


def add_sites(ts, items):
    """items: list of (position, node or None). Adds a site at each new position, with one
    mutation above `node` when given (no validity requirement on the node being in the tree)."""
    tables = ts.dump_tables()
    used = set(tables.sites.position.tolist())
    tables.mutations.time = np.full(tables.mutations.num_rows, tskit.UNKNOWN_TIME)
    for pos, node in items:
        pos = float(pos)
        if pos in used or not (0 <= pos < ts.sequence_length):
            continue
        used.add(pos)
        s = tables.sites.add_row(position=pos, ancestral_state="0", metadata=_empty_site_md(tables.sites))
        if node is not None:
            tables.mutations.add_row(site=s, node=int(node), derived_state="1",
                                     metadata=_empty_site_md(tables.mutations))
    return refinalize(tables)


def _empty_site_md(table):
    sch = table.metadata_schema
    if sch.schema is None:
        return b""
    try:
        sch.validate_and_encode_row({})
        return {}
    except Exception:
        return b""


# --------------------------------------------------------------------------
# strategies
# --------------------------------------------------------------------------


@st.composite
def fullarg_ts(draw, max_n=8):
    """msprime ARGs with unary nodes kept (record_full_arg + simplify(keep_unary=True), or
    coalescing_segments_only=False)."""
    n = draw(st.integers(2, max_n))
    L = draw(st.sampled_from([10.0, 100.0]))
    ne = draw(st.sampled_from([1.0, 10.0]))
    exp_bp = draw(st.sampled_from([0.5, 2, 5]))
    h = sum(1.0 / i for i in range(1, max(2, n)))
    rho = exp_bp / (4 * ne * L * h)
    seed = draw(st.integers(1, 2**31 - 1))
    kind = draw(st.sampled_from(["full_arg", "unary_spans"]))
    kw = dict(record_full_arg=True) if kind == "full_arg" else dict(coalescing_segments_only=False)
    ts = msprime.sim_ancestry(samples=n, ploidy=1, population_size=ne, sequence_length=L,
                              recombination_rate=rho, random_seed=seed, **kw)
    ts = ts.simplify(keep_unary=True)
    tot = sum(t.total_branch_length * t.span for t in ts.trees())
    mu = draw(st.sampled_from([1, 5, 20])) / max(tot, 1e-300)
    return msprime.sim_mutations(ts, rate=mu, random_seed=draw(st.integers(1, 2**31 - 1)))


@st.composite
def disjoint_ts(draw, tier="quick"):
    """Tree sequences with disjoint nodes for C29: base G-TS (built ones have nodes that vanish and
    reappear), drawn deletions without simplification (several pieces per node, regions without
    edges, optionally at the flanks), isolated samples, mutations on isolated samples, sites beyond
    the last edge / before the first edge / exactly at piece boundaries, metadata families.
    Returns (ts, tags)."""
    tags = []
    base = draw(st.sampled_from(["general", "general", "built_multi", "comb"]))
    if base == "general":
        ts = draw(G.general_ts(tier=tier, contemporaneous=draw(st.booleans()), single_root=True,
                               min_muts=0, missing=draw(st.booleans())))
    elif base == "built_multi":
        ts = draw(G.built_ts(max_n=6, max_trees=6, multiroot=True))
    else:
        n = draw(st.integers(2, 6))
        ts = tskit.Tree.generate_comb(n, span=draw(st.sampled_from([1.0, 10.0]))).tree_sequence
    tags.append("base=" + base)
    L = ts.sequence_length
    # deletions -> pieces
    k = draw(st.sampled_from([0, 1, 1, 2, 3]))
    if k:
        pts = []
        bps = ts.breakpoints(as_array=True)
        for _ in range(2 * k):
            how = draw(st.sampled_from(["frac", "frac", "frac", "bp", "bp", "end"]))
            if how == "frac":
                pts.append(L * draw(st.integers(1, 31)) / 32.0)
            elif how == "bp":
                pts.append(float(bps[draw(st.integers(0, len(bps) - 1))]))
            else:
                pts.append(draw(st.sampled_from([0.0, L])))
        ts, ivs = delete_regions(ts, pts)
        tags.append(f"deleted={len(ivs)}")
        if ivs and ivs[0][0] == 0:
            tags.append("deleted_left_flank")
        if ivs and ivs[-1][1] == L:
            tags.append("deleted_right_flank")
    # extra sites
    mode = draw(st.sampled_from(["none", "safe", "safe", "safe", "safe", "edgeless"]))
    if mode != "none" and ts.num_nodes:
        items = []
        pieces = node_pieces(ts)
        nsites = draw(st.integers(1, 5))
        for _ in range(nsites):
            kind = draw(st.sampled_from(["boundary", "frac", "invariant"]))
            if kind == "boundary":
                starts = sorted({p[0] for pc in pieces for p in pc} | {p[1] for pc in pieces for p in pc})
                starts = [s for s in starts if s < L] or [0.0]
                pos = starts[draw(st.integers(0, len(starts) - 1))]
            else:
                pos = L * draw(st.integers(0, 63)) / 64.0
            if kind == "invariant":
                items.append((pos, None))
                continue
            tree = ts.at(pos)
            in_tree = [u for u in range(ts.num_nodes) if tree.parent(u) != tskit.NULL or tree.num_children(u) > 0]
            if mode == "safe":
                cands = in_tree
            else:
                cands = list(range(ts.num_nodes))
            if not cands:
                continue
            items.append((pos, cands[draw(st.integers(0, len(cands) - 1))]))
        ts = add_sites(ts, items)
        tags.append("extra_sites=" + mode)
    fam = draw(st.sampled_from(["asis", "json_permissive", "json_permissive", "json_permissive_empty",
                                "none_empty", "none_bytes", "struct_plain", "json_restrictive"]))
    if fam != "asis":
        tables = ts.dump_tables()
        G.set_table_metadata(tables.nodes, fam, tag=draw(st.integers(0, 3)))
        if draw(st.booleans()):
            tables.nodes.population = np.full(tables.nodes.num_rows, -1, dtype=np.int32)
            tables.populations.clear()
            tables.populations.metadata_schema = tskit.MetadataSchema(None)
            for _ in range(2):
                tables.populations.add_row()
            tables.nodes.population = (np.arange(tables.nodes.num_rows) % 2).astype(np.int32)
            tables.individuals.clear()
            tables.individuals.metadata_schema = tskit.MetadataSchema(None)
            for _ in range(2):
                tables.individuals.add_row()
            ind = np.full(tables.nodes.num_rows, -1, dtype=np.int32)
            ind[::3] = 0
            ind[1::3] = 1
            tables.nodes.individual = ind
            tags.append("pop_ind")
        ts = tables.tree_sequence()
    tags.append("md=" + fam)
    return ts, tags


def dumps(obj):
    return json.dumps(obj, sort_keys=True)


def edgeless_mutation(ts):
    """Precondition of DESIGN F7: a mutation whose node has no edge starting at or left of its
    site, or a mutation at/after the right end of the last edge (or no edges at all)."""
    if ts.num_mutations == 0:
        return False
    if ts.num_edges == 0:
        return True
    first_left = np.full(ts.num_nodes, np.inf)
    np.minimum.at(first_left, ts.edges_parent, ts.edges_left)
    np.minimum.at(first_left, ts.edges_child, ts.edges_left)
    pos = ts.sites_position[ts.mutations_site]
    if np.any(first_left[ts.mutations_node] > pos):
        return True
    return bool(np.any(pos >= ts.edges_right.max()))
