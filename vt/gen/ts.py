"""
Hypothesis strategies for tree sequences (G-TS, G-TREE of DESIGN.md §3).

Every random choice is a Hypothesis draw (msprime seeds included) so cases replay
and shrink. All strategies only emit valid tskit tree sequences.
"""

import json
import math

import msprime
import numpy as np
import tskit
from hypothesis import strategies as st

# --------------------------------------------------------------------------
# helpers
# --------------------------------------------------------------------------


def finalize(tables, sort=True):
    if sort:
        tables.sort()
    tables.build_index()
    tables.compute_mutation_parents()
    return tables.tree_sequence()


def ts_summary(ts):
    t = ts.nodes_time
    return dict(
        nodes=int(ts.num_nodes),
        samples=int(ts.num_samples),
        edges=int(ts.num_edges),
        trees=int(ts.num_trees),
        sites=int(ts.num_sites),
        mutations=int(ts.num_mutations),
        individuals=int(ts.num_individuals),
        L=float(ts.sequence_length),
        tmax=float(t.max()) if len(t) else 0.0,
    )


def is_contemporaneous(ts):
    return bool(np.all(ts.nodes_time[ts.samples()] == 0))


def single_rooted(ts):
    """every tree has exactly one root that has children, and no isolated samples"""
    for tree in ts.trees():
        if tree.num_edges == 0:
            return False
        if tree.num_roots != 1:
            return False
    return True


def has_unary(ts, samples_too=True):
    for tree in ts.trees():
        for u in tree.nodes():
            if tree.num_children(u) == 1:
                if samples_too or not tree.is_sample(u):
                    return True
    return False


# --------------------------------------------------------------------------
# simulated tree sequences
# --------------------------------------------------------------------------


@st.composite
def sim_ts(draw, max_n=10, max_trees=40, min_muts=0, historical=False, ploidy=None, discrete=None,
           models=("hudson",)):
    """msprime as a source of valid ARGs; its seeds are Hypothesis draws."""
    ploidy = draw(st.sampled_from([1, 2])) if ploidy is None else ploidy
    n_ind = draw(st.integers(min_value=max(1, 2 // ploidy), max_value=max(1, max_n // ploidy)))
    if n_ind * ploidy < 2:
        n_ind = 2
    L = draw(st.sampled_from([10.0, 100.0, 1000.0, 1e4]))
    ne = draw(st.sampled_from([1.0, 10.0, 100.0, 1e4]))
    exp_trees = draw(st.sampled_from([0, 0, 1, 3, 10, max_trees]))
    # expected breakpoints ~ 4 Ne r L H_{n-1}
    h = sum(1.0 / i for i in range(1, max(2, n_ind * ploidy)))
    rho = exp_trees / (4 * ne * L * h) if exp_trees > 0 else 0.0
    seed = draw(st.integers(min_value=1, max_value=2**31 - 1))
    model = draw(st.sampled_from(list(models)))
    disc = draw(st.booleans()) if discrete is None else discrete
    samples = [msprime.SampleSet(n_ind, ploidy=ploidy, time=0)]
    if historical:
        n_hist = draw(st.integers(min_value=1, max_value=3))
        t_hist = draw(st.sampled_from([0.1, 1.0, 5.0])) * ne
        samples.append(msprime.SampleSet(n_hist, ploidy=ploidy, time=t_hist))
    ts = msprime.sim_ancestry(
        samples=samples,
        population_size=ne,
        sequence_length=L,
        recombination_rate=rho,
        random_seed=seed,
        model=model,
        discrete_genome=disc,
    )
    if ts.num_trees > 4 * max_trees + 20:
        ts = ts.keep_intervals([[0, ts.breakpoints(as_array=True)[max_trees]]], simplify=True)
    exp_muts = draw(st.sampled_from([0.3, 1, 3, 10, 30]))
    tot = sum(tree.total_branch_length * tree.span for tree in ts.trees())
    mu = exp_muts * max(1, ts.num_edges) / max(tot, 1e-300) / 4
    seed2 = draw(st.integers(min_value=1, max_value=2**31 - 1))
    mts = msprime.sim_mutations(ts, rate=mu, random_seed=seed2, discrete_genome=disc)
    if mts.num_mutations < min_muts:
        # deterministic top-up: put mutations on the first edges at their left end
        tables = mts.dump_tables()
        used = set(tables.sites.position)
        k = mts.num_mutations
        for e in mts.edges():
            if k >= min_muts:
                break
            pos = e.left
            while pos in used:
                pos = np.nextafter(pos, np.inf) if not disc else pos + 1
            if pos >= e.right:
                continue
            used.add(pos)
            s = tables.sites.add_row(position=pos, ancestral_state="A")
            tables.mutations.add_row(site=s, node=e.child, derived_state="T")
            k += 1
        mts = finalize(tables)
    return mts


# --------------------------------------------------------------------------
# built tree sequences (pure Hypothesis construction, shrinks well)
# --------------------------------------------------------------------------


class _Forest:
    """parent map over node ids with times, used to build successive local trees"""

    def __init__(self):
        self.time = []
        self.parent = {}

    def new_node(self, t):
        self.time.append(float(t))
        return len(self.time) - 1

    def children(self, u):
        return [c for c, p in self.parent.items() if p == u]

    def roots(self, nodes):
        return [u for u in nodes if u not in self.parent]

    def subtree(self, u):
        out, stack = set(), [u]
        while stack:
            x = stack.pop()
            out.add(x)
            stack.extend(self.children(x))
        return out

    def nodes_in_tree(self, leaves):
        out = set()
        for u in leaves:
            while u is not None and u not in out:
                out.add(u)
                u = self.parent.get(u)
        return out


@st.composite
def built_ts(draw, max_n=8, max_trees=5, max_arity=4, multiroot=False, max_muts_per_tree=6,
             span_choices=(1.0, 4.0, 100.0), min_muts=0, root_muts=True):
    n = draw(st.integers(min_value=2, max_value=max_n))
    f = _Forest()
    leaves = [f.new_node(0.0) for _ in range(n)]
    # first tree by random agglomeration
    roots = list(leaves)
    stop_early = multiroot and draw(st.booleans())
    while len(roots) > 1:
        if stop_early and len(roots) <= 3 and len(roots) < n and draw(st.booleans()):
            break
        k = draw(st.integers(min_value=2, max_value=min(max_arity, len(roots))))
        idx = draw(st.lists(st.integers(0, len(roots) - 1), min_size=k, max_size=k, unique=True))
        group = [roots[i] for i in idx]
        t = max(f.time[g] for g in group) + draw(st.sampled_from([0.25, 1.0, 1.0, 3.0]))
        u = f.new_node(t)
        for g in group:
            f.parent[g] = u
        roots = [r for r in roots if r not in group] + [u]
    num_trees = draw(st.integers(min_value=1, max_value=max_trees))
    width = draw(st.sampled_from(list(span_choices)))
    trees = [dict(f.parent)]
    for _ in range(num_trees - 1):
        # time-aware SPR on a copy
        cur = _Forest()
        cur.time = f.time
        cur.parent = dict(trees[-1])
        in_tree = sorted(cur.nodes_in_tree(leaves))
        cands = [u for u in in_tree if u in cur.parent]
        if not cands or draw(st.integers(0, 9)) == 0:
            trees.append(dict(cur.parent))  # identical tree (edges squash)
            continue
        x = cands[draw(st.integers(0, len(cands) - 1))]
        sub = cur.subtree(x)
        old_p = cur.parent.pop(x)
        # splice out old parent if it became unary
        ch = cur.children(old_p)
        if len(ch) == 1:
            gp = cur.parent.pop(old_p, None)
            if gp is not None:
                cur.parent[ch[0]] = gp
            else:
                cur.parent.pop(ch[0], None)
        elif len(ch) == 0:
            cur.parent.pop(old_p, None)
        rest = sorted(cur.nodes_in_tree([u for u in leaves if u not in sub]))
        mode = draw(st.integers(0, 3))
        tx = f.time[x]
        done = False
        if mode == 0:
            # attach directly below an existing internal node older than x (polytomy)
            ws = [w for w in rest if f.time[w] > tx and cur.children(w)]
            if ws:
                w = ws[draw(st.integers(0, len(ws) - 1))]
                cur.parent[x] = w
                done = True
        if not done:
            # regraft on the branch above y (or above a root) with a new node
            ys = [y for y in rest
                  if (y not in cur.parent) or f.time[cur.parent[y]] > max(tx, f.time[y])]
            if not ys:
                trees.append(dict(trees[-1]))
                continue
            y = ys[draw(st.integers(0, len(ys) - 1))]
            lo = max(tx, f.time[y])
            frac = draw(st.sampled_from([0.25, 0.5, 0.75]))
            if y in cur.parent:
                hi = f.time[cur.parent[y]]
                tz = lo + frac * (hi - lo)
                if not (lo < tz < hi):
                    trees.append(dict(trees[-1]))
                    continue
            else:
                tz = lo + 4 * frac
            z = f.new_node(tz)
            py = cur.parent.get(y)
            cur.parent[y] = z
            cur.parent[x] = z
            if py is not None:
                cur.parent[z] = py
        trees.append(dict(cur.parent))
    # edges
    tables = tskit.TableCollection(sequence_length=width * num_trees)
    for u, t in enumerate(f.time):
        tables.nodes.add_row(flags=tskit.NODE_IS_SAMPLE if u < n else 0, time=t)
    open_edges = {}
    for i, pm in enumerate(trees + [None]):
        left = i * width
        cur_pairs = set((p, c) for c, p in pm.items()) if pm is not None else set()
        for pc in list(open_edges):
            if pc not in cur_pairs:
                tables.edges.add_row(open_edges.pop(pc), left, pc[0], pc[1])
        for pc in cur_pairs:
            open_edges.setdefault(pc, left)
    # drop nodes never used (keep ids compact): simplify would renumber; instead keep them
    # out by construction: all created nodes were used in at least one tree, except ones
    # spliced out immediately -- remove unreferenced ones.
    used = set(tables.edges.parent) | set(tables.edges.child) | set(range(n))
    if len(used) < tables.nodes.num_rows:
        keep = np.array(sorted(used))
        remap = -np.ones(tables.nodes.num_rows, dtype=np.int32)
        remap[keep] = np.arange(len(keep), dtype=np.int32)
        nt = tables.nodes.copy()
        tables.nodes.clear()
        for u in keep:
            r = nt[u]
            tables.nodes.add_row(flags=r.flags, time=r.time)
        tables.edges.set_columns(left=tables.edges.left, right=tables.edges.right,
                                 parent=remap[tables.edges.parent], child=remap[tables.edges.child])
    tables.sort()
    ts0 = tables.tree_sequence()
    # mutations
    muts = []
    for i, tree in enumerate(ts0.trees()):
        k = draw(st.integers(min_value=0, max_value=max_muts_per_tree))
        nodes = [u for u in tree.nodes() if root_muts or tree.parent(u) != tskit.NULL]
        if not nodes:
            continue
        for _ in range(k):
            u = nodes[draw(st.integers(0, len(nodes) - 1))]
            slot = draw(st.integers(0, 7))
            pos = tree.interval.left + tree.span * slot / 8.0
            muts.append((pos, u))
    if len(muts) < min_muts:
        tree = ts0.first()
        nodes = [u for u in tree.nodes() if tree.parent(u) != tskit.NULL]
        j = 0
        while len(muts) < min_muts and nodes:
            muts.append((tree.interval.left + tree.span * (j % 8) / 8.0, nodes[j % len(nodes)]))
            j += 1
    muts.sort(key=lambda m: (m[0], -ts0.nodes_time[m[1]]))
    site_of = {}
    for pos, u in muts:
        if pos not in site_of:
            site_of[pos] = tables.sites.add_row(position=pos, ancestral_state="0")
        tables.mutations.add_row(site=site_of[pos], node=u, derived_state="1")
    return finalize(tables)


# --------------------------------------------------------------------------
# mutators (each keeps the tree sequence valid)
# --------------------------------------------------------------------------


def scale_times(ts, c):
    tables = ts.dump_tables()
    tables.nodes.time = tables.nodes.time * c
    mt = tables.mutations.time
    known = ~tskit.is_unknown_time(mt)
    mt[known] = mt[known] * c
    tables.mutations.time = mt
    return tables.tree_sequence()


def scale_coords(ts, c):
    """Multiply every genomic coordinate by c (sequence length, edges, sites, migrations)."""
    out = ts.dump_tables()
    out.sequence_length = ts.sequence_length * c
    out.edges.left = out.edges.left * c
    out.edges.right = out.edges.right * c
    out.sites.position = out.sites.position * c
    if len(out.migrations) > 0:
        out.migrations.left = out.migrations.left * c
        out.migrations.right = out.migrations.right * c
    return out.tree_sequence()


def collapse_nodes(ts, picks):
    """Delete internal non-root-forcing nodes listed in `picks` (indices into the list of
    non-sample nodes): their children are re-attached to their parents (polytomies).
    Mutations above a deleted node are moved to... removed (kept simple: dropped)."""
    nonsample = [u for u in range(ts.num_nodes) if not ts.node(u).is_sample()]
    kill = set(nonsample[i % len(nonsample)] for i in picks) if nonsample else set()
    if not kill:
        return ts
    tables = ts.dump_tables()
    tables.edges.clear()
    tables.mutations.clear()
    tables.sites.clear()
    for tree in ts.trees():
        for u in tree.nodes():
            if u in kill or tree.parent(u) == tskit.NULL:
                continue
            p = tree.parent(u)
            while p != tskit.NULL and p in kill:
                p = tree.parent(p)
            if p == tskit.NULL:
                continue
            tables.edges.add_row(tree.interval.left, tree.interval.right, p, u)
    smap = {}
    for site in ts.sites():
        for m in site.mutations:
            if m.node in kill:
                continue
            if site.id not in smap:
                smap[site.id] = tables.sites.add_row(site.position, site.ancestral_state)
            tables.mutations.add_row(site=smap[site.id], node=m.node, derived_state=m.derived_state)
    tables.sort()
    tables.edges.squash()
    tables.sort()
    # removing a root leaves its children as roots: fine. But a node left with one child
    # becomes unary -- callers that need unary-free inputs simplify afterwards.
    ts2 = finalize(tables)
    return ts2


def remove_leaf_edge(ts, sample_index, lo_frac, hi_frac):
    """Make one sample locally isolated (missing data) over an interval."""
    samples = ts.samples()
    s = samples[sample_index % len(samples)]
    L = ts.sequence_length
    lo, hi = sorted([lo_frac * L, hi_frac * L])
    bps = ts.breakpoints(as_array=True)
    lo = bps[np.searchsorted(bps, lo, side="right") - 1]
    hi = bps[min(len(bps) - 1, np.searchsorted(bps, hi, side="left"))]
    if hi <= lo:
        return ts
    tables = ts.dump_tables()
    tables.edges.clear()
    for e in ts.edges():
        if e.child != s or e.right <= lo or e.left >= hi:
            tables.edges.append(e)
            continue
        if e.left < lo:
            tables.edges.add_row(e.left, lo, e.parent, e.child)
        if e.right > hi:
            tables.edges.add_row(hi, e.right, e.parent, e.child)
    tables.sort()
    return finalize(tables)


def add_root_and_isolated_mutations(ts, n_root, n_iso, slots):
    """Mutations above roots, and on samples where they are isolated."""
    tables = ts.dump_tables()
    used = set(tables.sites.position)
    slots = list(slots)
    j = 0
    for tree in ts.trees():
        for kind, cnt in (("root", n_root), ("iso", n_iso)):
            for _ in range(cnt):
                if kind == "root":
                    cands = [r for r in tree.roots if tree.num_children(r) > 0]
                else:
                    cands = [r for r in tree.roots if tree.num_children(r) == 0]
                if not cands:
                    continue
                slot = slots[j % len(slots)] if slots else 0
                j += 1
                pos = tree.interval.left + tree.span * ((2 * slot + 1) % 16) / 16.0
                if pos in used:
                    continue
                used.add(pos)
                s = tables.sites.add_row(position=pos, ancestral_state="0")
                tables.mutations.add_row(site=s, node=cands[slot % len(cands)], derived_state="1")
    return finalize(tables)


def add_individuals(ts, ploidy_pattern):
    """Group contemporary sample nodes into individuals. pattern: list of sizes (1,2,3)."""
    tables = ts.dump_tables()
    tables.individuals.clear()
    ind = np.full(ts.num_nodes, tskit.NULL, dtype=np.int32)
    samples = list(ts.samples())
    i = 0
    k = 0
    while i < len(samples) and ploidy_pattern:
        size = ploidy_pattern[k % len(ploidy_pattern)]
        k += 1
        if size <= 0:
            i += 1
            continue
        grp = samples[i:i + size]
        i += size
        iid = tables.individuals.add_row(flags=0)
        for u in grp:
            ind[u] = iid
    tables.nodes.individual = ind
    return tables.tree_sequence()


def renumber_nonsamples(ts, perm_seed_list):
    """Permute non-sample node ids using a drawn list of swap indices. Returns (ts, map old->new)."""
    n = ts.num_nodes
    nons = [u for u in range(n) if not ts.node(u).is_sample()]
    order = list(nons)
    for i, j in enumerate(perm_seed_list):
        if not order:
            break
        a, b = i % len(order), j % len(order)
        order[a], order[b] = order[b], order[a]
    mapping = np.arange(n, dtype=np.int32)
    for old, new in zip(nons, order):
        mapping[old] = new
    inv = np.empty(n, dtype=np.int32)
    inv[mapping] = np.arange(n, dtype=np.int32)
    tables = ts.dump_tables()
    nodes = ts.dump_tables().nodes
    tables.nodes.clear()
    for new in range(n):
        tables.nodes.append(nodes[inv[new]])
    tables.edges.set_columns(left=tables.edges.left, right=tables.edges.right,
                             parent=mapping[tables.edges.parent], child=mapping[tables.edges.child],
                             metadata=tables.edges.metadata, metadata_offset=tables.edges.metadata_offset)
    tables.mutations.node = mapping[tables.mutations.node]
    tables.sort()
    tables.build_index()
    tables.compute_mutation_parents()
    return tables.tree_sequence(), mapping


def retime_nonsamples(ts, increments):
    """New non-sample times consistent with the DAG: children-first, each node gets
    max(children)+drawn increment. `increments` is cycled."""
    order = np.argsort(ts.nodes_time, kind="stable")
    new = ts.nodes_time.copy()
    children = [[] for _ in range(ts.num_nodes)]
    for e in ts.edges():
        children[e.parent].append(e.child)
    k = 0
    is_sample = np.zeros(ts.num_nodes, dtype=bool)
    is_sample[ts.samples()] = True
    for u in order:
        if is_sample[u] or not children[u]:
            continue
        inc = increments[k % len(increments)] if increments else 1.0
        k += 1
        new[u] = max(new[c] for c in set(children[u])) + inc
    tables = ts.dump_tables()
    tables.nodes.time = new
    tables.mutations.time = np.full(ts.num_mutations, tskit.UNKNOWN_TIME)
    tables.sort()
    tables.build_index()
    tables.compute_mutation_parents()
    return tables.tree_sequence()


# --------------------------------------------------------------------------
# composite strategies
# --------------------------------------------------------------------------


@st.composite
def general_ts(draw, tier="quick", contemporaneous=True, single_root=True, min_muts=1,
               allow_polytomy=True, max_n=None, max_trees=None, time_scale=False,
               missing=False, root_muts=True):
    """G-TS: mix of simulated and built tree sequences plus drawn mutators.
    With contemporaneous=True and single_root=True the result is accepted by all three
    methods (no unary nodes, one root per tree, samples at 0)."""
    big = tier == "thorough"
    max_n = max_n or (20 if big else 10)
    max_trees = max_trees or (40 if big else 12)
    kind = draw(st.sampled_from(["sim", "built"]))
    if kind == "sim":
        ts = draw(sim_ts(max_n=max_n, max_trees=max_trees, min_muts=min_muts,
                         historical=not contemporaneous and draw(st.booleans()),
                         models=("hudson", "smc_prime") if not big else ("hudson", "smc_prime", "dtwf")))
        if allow_polytomy and draw(st.integers(0, 3)) == 0:
            picks = draw(st.lists(st.integers(0, 1000), min_size=1, max_size=3))
            ts2 = collapse_nodes(ts, picks).simplify()
            if ts2.num_mutations >= min_muts and ts2.num_edges > 0:
                ts = ts2
    else:
        ts = draw(built_ts(max_n=min(max_n, 8), max_trees=min(max_trees, 6), min_muts=min_muts,
                           max_arity=4 if allow_polytomy else 2, multiroot=not single_root,
                           root_muts=root_muts))
    if missing and draw(st.integers(0, 2)) == 0 and ts.num_samples > 2:
        ts2 = remove_leaf_edge(ts, draw(st.integers(0, 100)), draw(st.floats(0, 1)), draw(st.floats(0, 1)))
        ts2 = ts2.simplify(keep_unary=False)
        if ts2.num_edges > 0 and ts2.num_mutations >= min_muts:
            ts = ts2
    if time_scale:
        k = draw(st.sampled_from([0, 0, -6, -3, 3, 6, 9, 12]))
        if k != 0:
            ts = scale_times(ts, 10.0 ** k)
    return ts


@st.composite
def single_tree(draw, max_leaves=6, max_arity=4, max_muts_per_edge=4, span_choices=(1.0, 7.5, 1e3)):
    """G-TREE: one small tree with per-edge drawn mutation counts."""
    n = draw(st.integers(2, max_leaves))
    times = [0.0] * n
    parent = {}
    roots = list(range(n))
    while len(roots) > 1:
        k = draw(st.integers(2, min(max_arity, len(roots))))
        idx = draw(st.lists(st.integers(0, len(roots) - 1), min_size=k, max_size=k, unique=True))
        group = [roots[i] for i in idx]
        u = len(times)
        times.append(max(times[g] for g in group) + 1.0)
        for g in group:
            parent[g] = u
        roots = [r for r in roots if r not in group] + [u]
    span = draw(st.sampled_from(list(span_choices)))
    tables = tskit.TableCollection(sequence_length=span)
    for u, t in enumerate(times):
        tables.nodes.add_row(flags=tskit.NODE_IS_SAMPLE if u < n else 0, time=t)
    for c, p in parent.items():
        tables.edges.add_row(0, span, p, c)
    tables.sort()
    nedges = len(parent)
    counts = draw(st.lists(st.integers(0, max_muts_per_edge), min_size=nedges, max_size=nedges))
    total = sum(counts)
    j = 0
    for (c, p), k in zip(sorted(parent.items()), counts):
        for _ in range(k):
            s = tables.sites.add_row(position=span * (j + 0.5) / max(total, 1), ancestral_state="0")
            tables.mutations.add_row(site=s, node=c, derived_state="1")
            j += 1
    return finalize(tables)


# --------------------------------------------------------------------------
# metadata decoration (used by C02, C08, C32)
# --------------------------------------------------------------------------

PERMISSIVE_JSON = tskit.MetadataSchema.permissive_json()
STRUCT_NODE = tskit.MetadataSchema({
    "codec": "struct", "type": "object",
    "properties": {"x": {"type": "integer", "binaryFormat": "i"}},
    "additionalProperties": False,
})
STRUCT_WITH_MNVR = tskit.MetadataSchema({
    "codec": "struct", "type": "object",
    "properties": {
        "mn": {"type": "number", "binaryFormat": "d", "default": float("nan")},
        "vr": {"type": "number", "binaryFormat": "d", "default": float("nan")},
        "x": {"type": "integer", "binaryFormat": "i", "default": 0},
    },
    "additionalProperties": False,
})
RESTRICTIVE_JSON = tskit.MetadataSchema({
    "codec": "json", "type": "object",
    "properties": {"name": {"type": "string"}},
    "additionalProperties": False,
})
WRONGTYPE_JSON = tskit.MetadataSchema({
    "codec": "json", "type": "object",
    "properties": {"mn": {"type": "string"}, "vr": {"type": "string"}},
})


def set_table_metadata(table, family, tag=0):
    """Install a schema/metadata family on a node or mutation table (in place)."""
    n = table.num_rows
    if family == "none_empty":
        table.metadata_schema = tskit.MetadataSchema(None)
        table.packset_metadata([b""] * n)
    elif family == "none_bytes":
        table.metadata_schema = tskit.MetadataSchema(None)
        table.packset_metadata([bytes([65 + (i + tag) % 26]) * (1 + i % 3) for i in range(n)])
    elif family == "json_permissive":
        table.metadata_schema = PERMISSIVE_JSON
        table.packset_metadata([
            PERMISSIVE_JSON.validate_and_encode_row({"k": i + tag, "s": "v%d" % (i % 4)}) for i in range(n)])
    elif family == "json_permissive_empty":
        table.metadata_schema = PERMISSIVE_JSON
        table.packset_metadata([b""] * n)
    elif family == "json_restrictive":
        table.metadata_schema = RESTRICTIVE_JSON
        table.packset_metadata([
            RESTRICTIVE_JSON.validate_and_encode_row({"name": "n%d" % (i + tag)}) for i in range(n)])
    elif family == "json_wrongtype":
        table.metadata_schema = WRONGTYPE_JSON
        table.packset_metadata([
            WRONGTYPE_JSON.validate_and_encode_row({"mn": "a", "vr": "b", "q": i}) for i in range(n)])
    elif family == "struct_plain":
        table.metadata_schema = STRUCT_NODE
        table.packset_metadata([STRUCT_NODE.validate_and_encode_row({"x": i + tag}) for i in range(n)])
    elif family == "struct_mnvr":
        table.metadata_schema = STRUCT_WITH_MNVR
        table.packset_metadata([
            STRUCT_WITH_MNVR.validate_and_encode_row({"mn": 1.0, "vr": 2.0, "x": i + tag}) for i in range(n)])
    else:
        raise ValueError(family)


METADATA_FAMILIES = ["none_empty", "none_bytes", "json_permissive", "json_permissive_empty",
                     "json_restrictive", "json_wrongtype", "struct_plain", "struct_mnvr"]


def decorate(ts, node_family="json_permissive", mut_family="json_permissive", populations=2,
             individuals=(2,), extra=True, tag=0):
    tables = ts.dump_tables()
    if individuals:
        tables = add_individuals(tables.tree_sequence(), list(individuals)).dump_tables()
        tables.individuals.metadata_schema = PERMISSIVE_JSON
        tables.individuals.packset_metadata([
            PERMISSIVE_JSON.validate_and_encode_row({"id": i + tag}) for i in range(tables.individuals.num_rows)])
    if populations:
        tables.populations.clear()
        tables.populations.metadata_schema = PERMISSIVE_JSON
        for p in range(populations):
            tables.populations.add_row(metadata={"name": "pop%d" % (p + tag)})
        pop = np.arange(tables.nodes.num_rows, dtype=np.int32) % populations
        tables.nodes.population = pop
    set_table_metadata(tables.nodes, node_family, tag)
    set_table_metadata(tables.mutations, mut_family, tag)
    if extra:
        tables.sites.metadata_schema = PERMISSIVE_JSON
        tables.sites.packset_metadata([
            PERMISSIVE_JSON.validate_and_encode_row({"s": i + tag}) for i in range(tables.sites.num_rows)])
        tables.edges.metadata_schema = PERMISSIVE_JSON
        tables.edges.packset_metadata([
            PERMISSIVE_JSON.validate_and_encode_row({"e": i}) for i in range(tables.edges.num_rows)])
        tables.metadata_schema = PERMISSIVE_JSON
        tables.metadata = {"top": "level%d" % tag}
        tables.provenances.add_row(record=json.dumps({"note": "pre-existing %d" % tag}), timestamp="2020-01-01T00:00:00")
        tables.reference_sequence.data = "ACGT" * 2
    return tables.tree_sequence()
