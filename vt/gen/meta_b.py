"""
Metadata / irrelevant-data decoration used by C02, C08, C32 (builder B's own helpers; the
shared families live in vt/gen/ts.py and are reused, never edited).

Everything here is deterministic given its arguments: all randomness comes from Hypothesis
draws made by the caller.
"""

import json

import numpy as np
import tskit

from vt.gen import ts as G

# --------------------------------------------------------------------------
# additional schema families (on top of G.METADATA_FAMILIES)
# --------------------------------------------------------------------------

JSON_REQUIRED_OTHER = tskit.MetadataSchema({
    "codec": "json", "type": "object",
    "properties": {"name": {"type": "string"}},
    "required": ["name"],
})
JSON_CLOSED_WITH_MNVR = tskit.MetadataSchema({
    "codec": "json", "type": "object",
    "properties": {"mn": {"type": "number"}, "vr": {"type": "number"}, "name": {"type": "string"}},
    "additionalProperties": False,
})
STRUCT_MNVR_F32 = tskit.MetadataSchema({
    "codec": "struct", "type": "object",
    "properties": {
        "mn": {"type": "number", "binaryFormat": "f"},
        "vr": {"type": "number", "binaryFormat": "f"},
        "tag": {"type": "string", "binaryFormat": "4s"},
    },
    "required": ["mn", "vr", "tag"],
    "additionalProperties": False,
})
JSON_INT_MN = tskit.MetadataSchema({
    # mn must be an integer: the posterior means are not => cannot encode
    "codec": "json", "type": "object",
    "properties": {"mn": {"type": "integer"}},
})

EXTRA_FAMILIES = ["json_required_other", "json_closed_with_mnvr", "json_permissive_has_mnvr",
                  "json_mixed_rows", "struct_mnvr_f32", "json_int_mn", "tsdate_default_extra"]
ALL_FAMILIES = list(G.METADATA_FAMILIES) + EXTRA_FAMILIES


def set_family(table, family, tag=0):
    """Install a schema/metadata family on a table (in place)."""
    n = table.num_rows
    if family in G.METADATA_FAMILIES:
        G.set_table_metadata(table, family, tag)
    elif family == "json_required_other":
        table.metadata_schema = JSON_REQUIRED_OTHER
        table.packset_metadata([
            JSON_REQUIRED_OTHER.validate_and_encode_row({"name": "r%d" % (i + tag), "z": [i, None]})
            for i in range(n)])
    elif family == "json_closed_with_mnvr":
        table.metadata_schema = JSON_CLOSED_WITH_MNVR
        table.packset_metadata([
            JSON_CLOSED_WITH_MNVR.validate_and_encode_row({"name": "c%d" % (i + tag)}) for i in range(n)])
    elif family == "json_permissive_has_mnvr":
        table.metadata_schema = G.PERMISSIVE_JSON
        table.packset_metadata([
            G.PERMISSIVE_JSON.validate_and_encode_row({"mn": -1.0, "vr": "old", "keep": i + tag})
            for i in range(n)])
    elif family == "json_mixed_rows":
        # some rows empty (decode as {}), others carry keys
        table.metadata_schema = G.PERMISSIVE_JSON
        table.packset_metadata([
            b"" if (i + tag) % 2 == 0 else G.PERMISSIVE_JSON.validate_and_encode_row({"odd": i + tag})
            for i in range(n)])
    elif family == "struct_mnvr_f32":
        table.metadata_schema = STRUCT_MNVR_F32
        table.packset_metadata([
            STRUCT_MNVR_F32.validate_and_encode_row({"mn": 0.5, "vr": 0.25, "tag": "%04d" % ((i + tag) % 10000)})
            for i in range(n)])
    elif family == "json_int_mn":
        table.metadata_schema = JSON_INT_MN
        table.packset_metadata([
            JSON_INT_MN.validate_and_encode_row({"mn": 7, "w": i + tag}) for i in range(n)])
    elif family == "tsdate_default_extra":
        # an already dated (and then annotated / preprocessed) input: tsdate's own default schema
        # (it allows additional properties) with old mn/vr and extra fields on the rows
        from tsdate import schemas as _schemas

        sch = _schemas.default_node_schema if hasattr(table, "flags") and hasattr(table, "individual") \
            else _schemas.default_mutation_schema
        table.metadata_schema = sch
        table.packset_metadata([
            sch.validate_and_encode_row({"mn": 3.0, "vr": 1.0, "unsplit_node_id": i + tag} if i % 3 else
                                        {"rsid": 1000 + i + tag}) for i in range(n)])
    else:
        raise ValueError(family)


def can_encode(table, mn=1.5, vr=2.5):
    """The statement's "existing schema can encode them": tskit's own validate_and_encode_row on
    {**row, mn, vr} accepts every row (posterior means/variances are Python-float-like numbers)."""
    schema = table.metadata_schema
    if schema.schema is None:
        return False
    try:
        if len(table.metadata) > 0:
            rows = [table[i].metadata for i in range(table.num_rows)]
        else:
            rows = [schema.decode_row(b"") for _ in range(table.num_rows)] if table.num_rows else []
        for md in rows:
            if not isinstance(md, dict):
                return False
            schema.validate_and_encode_row({**md, "mn": mn, "vr": vr})
    except Exception:
        return False
    return True


def canon(obj):
    """canonical hashable form of decoded metadata (NaN-safe)"""
    if isinstance(obj, dict):
        return ("d",) + tuple(sorted((k, canon(v)) for k, v in obj.items()))
    if isinstance(obj, (list, tuple)):
        return ("l",) + tuple(canon(v) for v in obj)
    if isinstance(obj, float):
        return ("f", obj.hex() if obj == obj else "nan")
    if isinstance(obj, (bytes, str, int, bool)) or obj is None:
        return (type(obj).__name__, obj)
    return ("r", repr(obj))


def other_fields(schema, raw):
    """(kind, canonical value) of a metadata entry with mn/vr removed when it decodes to a
    dict, raw bytes otherwise."""
    if schema.schema is None:
        return ("raw", bytes(raw))
    try:
        md = schema.decode_row(bytes(raw))
    except Exception:
        return ("raw", bytes(raw))
    if isinstance(md, dict):
        return ("dict", canon({k: v for k, v in md.items() if k not in ("mn", "vr")}))
    return ("val", canon(md))


def raw_rows(table):
    off = table.metadata_offset
    md = table.metadata.tobytes()
    return [md[off[i]:off[i + 1]] for i in range(table.num_rows)]


# --------------------------------------------------------------------------
# input decoration
# --------------------------------------------------------------------------


def assign_individuals(tables, pattern, drop_incomplete=False, tag=0):
    """Group sample nodes (in id order) into individuals of the given sizes (cycled).
    drop_incomplete: a trailing group smaller than its size gets no individual (so that
    pattern (2,) yields only diploids)."""
    tables.individuals.clear()
    ind = np.full(tables.nodes.num_rows, tskit.NULL, dtype=np.int32)
    flags = tables.nodes.flags
    samples = [u for u in range(tables.nodes.num_rows) if flags[u] & tskit.NODE_IS_SAMPLE]
    i = k = 0
    pattern = [p for p in pattern]
    while i < len(samples) and pattern and any(p > 0 for p in pattern):
        size = pattern[k % len(pattern)]
        k += 1
        if size <= 0:
            i += 1
            continue
        grp = samples[i:i + size]
        i += size
        if drop_incomplete and len(grp) < size:
            break
        iid = tables.individuals.add_row(flags=(tag + k) % 3, location=[float(k), float(tag)])
        for u in grp:
            ind[u] = iid
    tables.nodes.individual = ind
    tables.individuals.metadata_schema = G.PERMISSIVE_JSON
    tables.individuals.packset_metadata([
        G.PERMISSIVE_JSON.validate_and_encode_row({"id": i + tag}) for i in range(tables.individuals.num_rows)])


def assign_populations(tables, npop, tag=0):
    tables.populations.clear()
    if npop <= 0:
        tables.nodes.population = np.full(tables.nodes.num_rows, tskit.NULL, dtype=np.int32)
        return
    tables.populations.metadata_schema = G.PERMISSIVE_JSON
    for p in range(npop):
        tables.populations.add_row(metadata={"name": "pop%d" % (p + tag)})
    pop = ((np.arange(tables.nodes.num_rows, dtype=np.int64) * (1 + tag % 3) + tag) % npop).astype(np.int32)
    tables.nodes.population = pop


def add_migrations(tables, n, tag=0):
    """A few valid migration records (sorted by time). Needs >= 2 populations."""
    if tables.populations.num_rows < 2 or tables.migrations.num_rows > 0:
        return
    L = tables.sequence_length
    tables.migrations.metadata_schema = G.PERMISSIVE_JSON
    for j in range(n):
        tables.migrations.add_row(left=0, right=L / (j + 1), node=j % tables.nodes.num_rows,
                                  source=j % 2, dest=(j + 1) % 2, time=0.25 * (j + 1) + tag,
                                  metadata={"m": j + tag})


def extras(tables, tag=0, edge_md=True):
    tables.sites.metadata_schema = G.PERMISSIVE_JSON
    tables.sites.packset_metadata([
        G.PERMISSIVE_JSON.validate_and_encode_row({"s": i + tag}) for i in range(tables.sites.num_rows)])
    tables.edges.metadata_schema = G.PERMISSIVE_JSON
    if edge_md:
        # NB the discrete methods crash on non-empty edge metadata (tskit simplify inside the
        # prior construction refuses it: LibraryError, a C35 matter) => callers switch it off there
        tables.edges.packset_metadata([
            G.PERMISSIVE_JSON.validate_and_encode_row({"e": i + tag}) for i in range(tables.edges.num_rows)])
    tables.metadata_schema = G.PERMISSIVE_JSON
    tables.metadata = {"top": "level%d" % tag}
    tables.provenances.add_row(record=json.dumps({"note": "pre-existing %d" % tag}),
                               timestamp="2020-01-01T00:00:%02d" % (tag % 60))
    tables.reference_sequence.data = "ACGT" * (2 + tag % 3)


def decorate_b(ts, node_family="json_permissive", mut_family="json_permissive", populations=2,
               ind_pattern=(2,), drop_incomplete=False, extra=True, migrations=0, tag=0, edge_md=True):
    """Like G.decorate, plus: all families, migrations, individual flags/locations, optional
    'diploids only' grouping."""
    tables = ts.dump_tables()
    if ind_pattern:
        assign_individuals(tables, list(ind_pattern), drop_incomplete, tag)
    assign_populations(tables, populations, tag)
    if migrations:
        add_migrations(tables, migrations, tag)
    set_family(tables.nodes, node_family, tag)
    set_family(tables.mutations, mut_family, tag)
    if extra:
        extras(tables, tag, edge_md)
    return tables.tree_sequence()


def split_edges(ts, picks):
    """Cut the picked edges in two at their midpoint: adjacent unsquashed edges are valid input
    and an output that 'tidies' them would change the set of edges."""
    if ts.num_edges == 0 or not picks:
        return ts
    tables = ts.dump_tables()
    chosen = set(p % ts.num_edges for p in picks)
    raw = raw_rows(tables.edges)
    left, right, parent, child, md = [], [], [], [], []
    for e in ts.edges():
        cuts = [e.left, e.right]
        if e.id in chosen:
            mid = e.left + (e.right - e.left) / 2
            if e.left < mid < e.right:
                cuts = [e.left, mid, e.right]
        for a, b in zip(cuts[:-1], cuts[1:]):
            left.append(a)
            right.append(b)
            parent.append(e.parent)
            child.append(e.child)
            md.append(raw[e.id])
    packed, offset = tskit.pack_bytes(md)
    tables.edges.set_columns(left=np.array(left), right=np.array(right),
                             parent=np.array(parent, dtype=np.int32), child=np.array(child, dtype=np.int32),
                             metadata=packed, metadata_offset=offset)
    tables.sort()
    tables.build_index()
    tables.compute_mutation_parents()
    return tables.tree_sequence()


# --------------------------------------------------------------------------
# irrelevant-data perturbations (C08). None of them touches edges, node times, sample
# flags, mutation nodes / positions, or the ORDER of node, edge and mutation rows.
# --------------------------------------------------------------------------

PERTURBATIONS = ["metadata", "states", "populations", "monomorphic", "provenance", "time_units",
                 "toplevel", "mutation_times", "other_flags", "individuals"]

STATE_STYLES = ["swap", "long", "empty_ancestral", "same_as_ancestral", "all_equal"]


def perturb(ts, kinds, p):
    """Apply the perturbation kinds (list of names) with parameter dict p (plain drawn data)."""
    tables = ts.dump_tables()
    tag = p.get("tag", 1)
    if "metadata" in kinds:
        set_family(tables.nodes, p["node_family"], tag)
        set_family(tables.mutations, p["mut_family"], tag)
        tables.sites.metadata_schema = G.PERMISSIVE_JSON
        tables.sites.packset_metadata([
            G.PERMISSIVE_JSON.validate_and_encode_row({"s2": i * tag}) for i in range(tables.sites.num_rows)])
        if p.get("edge_md", True):
            tables.edges.metadata_schema = G.STRUCT_NODE
            tables.edges.packset_metadata([
                G.STRUCT_NODE.validate_and_encode_row({"x": i + tag}) for i in range(tables.edges.num_rows)])
        else:
            tables.edges.metadata_schema = G.STRUCT_NODE if tag % 2 else tskit.MetadataSchema(None)
    if "states" in kinds:
        style = p["state_style"]
        anc, der = [], []
        for s in ts.sites():
            a = {"swap": "T", "long": "ACGT" * (1 + s.id % 3), "empty_ancestral": "",
                 "same_as_ancestral": "A", "all_equal": "Z"}[style]
            anc.append(a)
        for m in ts.mutations():
            d = {"swap": "0" if m.derived_state != "0" else "1", "long": "G" * (1 + m.id % 5),
                 "empty_ancestral": "x", "same_as_ancestral": "A", "all_equal": "Z"}[style]
            der.append(d)
        tables.sites.packset_ancestral_state(anc)
        tables.mutations.packset_derived_state(der)
    if "populations" in kinds:
        assign_populations(tables, p["npop"], tag)
    if "individuals" in kinds:
        if p["ind_pattern"]:
            assign_individuals(tables, list(p["ind_pattern"]), False, tag)
        else:
            tables.individuals.clear()
            tables.nodes.individual = np.full(tables.nodes.num_rows, tskit.NULL, dtype=np.int32)
    if "provenance" in kinds:
        if p.get("prov_clear"):
            tables.provenances.clear()
        for j in range(p["n_prov"]):
            tables.provenances.add_row(record=json.dumps({"added": j, "tag": tag}),
                                       timestamp="2021-01-01T00:00:%02d" % j)
    if "time_units" in kinds:
        tables.time_units = p["time_units"]
    if "toplevel" in kinds:
        tables.metadata_schema = G.PERMISSIVE_JSON
        tables.metadata = {"other": tag}
        tables.reference_sequence.data = "TTGA" * tag
    if "other_flags" in kinds:
        fl = tables.nodes.flags.copy()
        bit = np.uint32(1 << (16 + tag % 8))  # not NODE_IS_SAMPLE (bit 0)
        for u in range(len(fl)):
            if (u + tag) % 2 == 0:
                fl[u] |= bit
        tables.nodes.flags = fl
    if "mutation_times" in kinds:
        mt = tables.mutations.time
        if np.all(tskit.is_unknown_time(mt)):
            # tskit re-sorts the rows of a site when it fills in times: adopt the known times
            # only if the row order (which C08 must not touch) survived
            t2 = tables.copy()
            t2.build_index()
            t2.compute_mutation_parents()
            t2.compute_mutation_times()
            if np.array_equal(t2.mutations.node, tables.mutations.node) and \
                    np.array_equal(t2.mutations.site, tables.mutations.site):
                tables.mutations.time = t2.mutations.time
                tables.mutations.parent = t2.mutations.parent
        else:
            tables.mutations.time = np.full_like(mt, tskit.UNKNOWN_TIME)
    if "monomorphic" in kinds:
        # insert the new sites by hand (no tables.sort(): it would re-sort mutation rows by time)
        st_ = tables.sites
        old_pos = st_.position.tolist()
        used = set(old_pos)
        L = tables.sequence_length
        new_pos = []
        fracs = list(p["mono_fracs"])
        if p.get("mono_equalise"):
            # boundary class: make the site and mutation tables the same length although some sites
            # carry several mutations (add exactly num_mutations - num_sites monomorphic sites)
            want = tables.mutations.num_rows - len(old_pos)
            if want > 0:
                fracs = [(fracs[i % len(fracs)] + i * 0.6180339887498949) % 1.0 for i in range(4 * want)]
            else:
                want = None
        else:
            want = None
        for f in fracs:
            if want is not None and len(new_pos) >= want:
                break
            pos = float(f) * L
            if p.get("mono_integer"):
                pos = float(int(pos))
            if 0 <= pos < L and pos not in used:
                used.add(pos)
                new_pos.append(pos)
        if new_pos:
            anc = tskit.unpack_bytes(st_.ancestral_state, st_.ancestral_state_offset)
            md = raw_rows(st_)
            empty_md = b"{}" if st_.metadata_schema.schema is not None and any(len(m) for m in md) else b""
            rows = [(x, anc[i], md[i], i) for i, x in enumerate(old_pos)] + [(x, b"M", empty_md, -1) for x in new_pos]
            rows.sort(key=lambda r: r[0])
            remap = np.zeros(len(old_pos), dtype=np.int32)
            for new_id, r in enumerate(rows):
                if r[3] >= 0:
                    remap[r[3]] = new_id
            a_packed, a_off = tskit.pack_bytes([r[1] for r in rows])
            m_packed, m_off = tskit.pack_bytes([r[2] for r in rows])
            st_.set_columns(position=np.array([r[0] for r in rows]), ancestral_state=a_packed,
                            ancestral_state_offset=a_off, metadata=m_packed, metadata_offset=m_off)
            tables.mutations.site = remap[tables.mutations.site]
    tables.build_index()
    return tables.tree_sequence()


def mutation_keys(ts):
    """per input mutation id: (site position, node, order among identical (pos,node))"""
    pos = ts.sites_position[ts.mutations_site]
    node = ts.mutations_node
    seen = {}
    out = []
    for i in range(ts.num_mutations):
        k = (float(pos[i]), int(node[i]))
        j = seen.get(k, 0)
        seen[k] = j + 1
        out.append(k + (j,))
    return out
