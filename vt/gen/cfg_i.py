"""
G-CFG (DESIGN §3): drawn option sets for date()/the named methods (C35) and argv vectors
for the command line (C34). Invalid values and numpy-typed values are labelled classes.

Cases only contain plain data (str/int/float/bool/None, numpy scalars/arrays, lists, dicts,
tree sequences) so that vt.runner can encode them; objects that need tsdate (population size
histories, prior grids) are described by *specs* and built at check time.
"""

import numpy as np
from hypothesis import strategies as st

METHODS = ["variational_gamma", "inside_outside", "maximization"]

# --------------------------------------------------------------------------
# typed scalars
# --------------------------------------------------------------------------

FLOAT_TYPES = ["py", "py", "py", "py", "py", "np64", "np64", "np32", "pyint"]
INT_TYPES = ["py", "py", "py", "py", "py", "np64", "np32"]
BOOL_TYPES = ["py", "py", "py", "py", "py", "np"]


def typed_float(x, tag):
    if tag == "np64":
        return np.float64(x)
    if tag == "np32":
        return np.float32(x)
    if tag == "pyint" and float(x) == int(x) and abs(x) < 2**53:
        return int(x)
    return float(x)


def typed_int(x, tag):
    if tag == "np64":
        return np.int64(x)
    if tag == "np32":
        return np.int32(x)
    return int(x)


def typed_bool(x, tag):
    return np.bool_(x) if tag == "np" else bool(x)


def type_label(v):
    if isinstance(v, np.generic):
        return "np." + type(v).__name__
    return type(v).__name__


@st.composite
def _float(draw, strat):
    return typed_float(draw(strat), draw(st.sampled_from(FLOAT_TYPES)))


@st.composite
def _int(draw, strat):
    return typed_int(draw(strat), draw(st.sampled_from(INT_TYPES)))


@st.composite
def _bool(draw, none=True):
    v = draw(st.sampled_from([None, True, False] if none else [True, False]))
    if v is None:
        return None
    return typed_bool(v, draw(st.sampled_from(BOOL_TYPES)))


def pow10(lo, hi):
    return st.integers(lo, hi).map(lambda k: 10.0 ** k)


# --------------------------------------------------------------------------
# population size / priors specs (built by build_popsize / build_priors at check time)
# --------------------------------------------------------------------------


@st.composite
def popsize_spec(draw):
    kind = draw(st.sampled_from(["float", "float", "float", "dict", "psh"]))
    if kind == "float":
        return ("float", draw(_float(st.sampled_from([1.0, 10.0, 100.0, 1e4, 0.5, 1e5]))))
    k = draw(st.integers(1, 4))
    sizes = [draw(st.sampled_from([1.0, 10.0, 100.0, 1e4])) for _ in range(k)]
    incs = [draw(st.sampled_from([0.5, 10.0, 1000.0])) for _ in range(k - 1)]
    breaks = list(np.cumsum(incs)) if incs else []
    d = dict(population_size=sizes)
    if breaks or draw(st.booleans()):
        d["time_breaks"] = [float(b) for b in breaks]
    return (kind, d)


def build_popsize(spec):
    import tsdate

    kind, val = spec
    if kind == "float":
        return val
    if kind == "dict":
        return {k: list(v) for k, v in val.items()}
    return tsdate.demography.PopulationSizeHistory(**val)


@st.composite
def priors_spec(draw):
    tp = draw(st.sampled_from(["int", "int", "array"]))
    if tp == "int":
        timepoints = draw(st.integers(2, 12))
    else:
        n = draw(st.integers(2, 8))
        incs = [draw(st.sampled_from([0.1, 1.0, 10.0, 1000.0])) for _ in range(n - 1)]
        timepoints = np.concatenate([[0.0], np.cumsum(incs)])
    return dict(population_size=draw(st.sampled_from([1.0, 100.0, 1e4])), timepoints=timepoints,
                prior_distribution=draw(st.sampled_from(["lognorm", "gamma"])))


def build_priors(ts, spec, allow_unary=False):
    import tsdate

    return tsdate.build_prior_grid(ts, spec["population_size"], spec["timepoints"],
                                   prior_distribution=spec["prior_distribution"],
                                   allow_unary=bool(allow_unary))


# --------------------------------------------------------------------------
# C35: option sets for date() and the named methods
# --------------------------------------------------------------------------

INVALID_CLASSES = [
    "mutation_rate_nonpositive", "recombination_rate_nonpositive", "min_branch_length_nonpositive",
    "constr_iterations_negative", "max_iterations_nonpositive", "unknown_method",
    "popsize_with_variational", "priors_with_variational", "eps_with_variational",
    "no_mutations_with_variational", "Ne_and_population_size", "priors_and_population_size",
]


def _maybe(draw, strat, p_num=1, p_den=3):
    """include an option with probability p_num/p_den; returns (present, value)"""
    if draw(st.integers(0, p_den - 1)) < p_num:
        return True, draw(strat)
    return False, None


@st.composite
def date_config(draw, method=None, invalid=None, hints=()):
    """Returns dict(entry, method, kwargs, popsize, priors, invalid). `kwargs` holds plain/numpy
    values; popsize/priors are specs. Only options documented for the method are produced."""
    method = method or draw(st.sampled_from(METHODS + ["variational_gamma"]))
    entry = draw(st.sampled_from(["date", "direct"]))
    kw = {}
    # mutation rate: G-CFG 10^k, k in [-22,-2]; mostly in the useful range
    mu = draw(st.one_of(pow10(-10, -2), pow10(-10, -2), pow10(-22, -2)))
    kw["mutation_rate"] = typed_float(mu, draw(st.sampled_from(FLOAT_TYPES)))
    if draw(st.integers(0, 29)) == 0:
        kw["mutation_rate"] = typed_float(draw(st.sampled_from([1.0, 1e3, float("inf")])), "py")

    def opt(name, strat, p_num=1, p_den=3):
        present, v = _maybe(draw, strat, p_num, p_den)
        if present:
            kw[name] = v

    opt("min_branch_length", st.one_of(st.none(), _float(pow10(-12, 2))))
    opt("constr_iterations", st.sampled_from([None, 0, 0, 1, 1, 5, 5, 100, 100, np.int64(5), True]))
    opt("set_metadata", _bool())
    opt("return_fit", _bool(), 1, 2)
    opt("return_likelihood", _bool(), 1, 2)
    opt("record_provenance", _bool(), 1, 2)
    opt("time_units", st.sampled_from([None, "generations", "years", ""]), 1, 6)
    if "unary" in hints and draw(st.booleans()):
        kw["allow_unary"] = typed_bool(True, draw(st.sampled_from(BOOL_TYPES)))
    else:
        opt("allow_unary", _bool(), 1, 3)
    opt("progress", st.sampled_from([None, False]), 1, 8)
    popsize = priors = None
    if method == "variational_gamma":
        opt("max_iterations", st.one_of(st.none(), _int(st.integers(1, 6)), st.just(25)))
        opt("max_shape", st.one_of(st.none(), _float(st.sampled_from([1.5, 2.0, 10.0, 1000.0, 1e4]))))
        # default rescaling (1000 intervals) is the F2 regime: drawn explicitly 2 times in 3
        opt("rescaling_intervals", st.one_of(st.none(), _int(st.sampled_from([0, 0, 1, 2, 5, 1000])),
                                             st.sampled_from([0.0, 2.0, 1000.0])), 2, 3)
        opt("rescaling_iterations", st.one_of(st.none(), _int(st.integers(0, 6))))
        opt("match_segregating_sites", _bool())
        opt("regularise_roots", _bool())
        opt("singletons_phased", _bool(), 1, (6 if "not_diploid" in hints else 2))
    else:
        if draw(st.integers(0, 3)) == 0:
            priors = draw(priors_spec())
        else:
            popsize = draw(popsize_spec())
        opt("eps", st.one_of(st.none(), _float(pow10(-12, -2))))
        opt("probability_space", st.sampled_from([None, "logarithmic", "linear", "linear"]), 1, 2)
        opt("num_threads", st.sampled_from([None, 0, 1, 1, 2, np.int64(1)]), 1, 4)
        opt("cache_inside", _bool(), 1, 4)
        if method == "inside_outside":
            opt("outside_standardize", _bool())
            opt("ignore_oldest_root", _bool())
            if draw(st.integers(0, 4)) == 4:
                kw["mutation_rate"] = None  # topology-only clock: documented for single trees
    method_kw = method
    if entry == "date" and method == "variational_gamma" and draw(st.booleans()):
        method_kw = None  # documented default
    cfg = dict(entry=entry, method=method, method_kw=method_kw, kwargs=kw, popsize=popsize,
               priors=priors, invalid=None, use_Ne=False)
    if popsize is not None and popsize[0] == "float" and draw(st.integers(0, 9)) == 0:
        cfg["use_Ne"] = True  # deprecated alias, still accepted
    if invalid is not None:
        apply_invalid(draw, cfg, invalid)
    return cfg


def apply_invalid(draw, cfg, invalid):
    """Turn an otherwise valid configuration into a member of one invalid-parameter class."""
    kw = cfg["kwargs"]
    cfg["invalid"] = invalid
    neg = st.sampled_from([0, 0.0, -0.0, -1.0, -1e-8, -1e-300, float("nan"), float("-inf")])
    if invalid == "mutation_rate_nonpositive":
        kw["mutation_rate"] = typed_float(draw(neg), draw(st.sampled_from(["py", "py", "np64", "np32"])))
    elif invalid == "recombination_rate_nonpositive":
        kw["recombination_rate"] = typed_float(draw(neg), draw(st.sampled_from(["py", "py", "np64"])))
    elif invalid == "min_branch_length_nonpositive":
        kw["min_branch_length"] = typed_float(draw(neg), draw(st.sampled_from(["py", "py", "np64", "np32"])))
    elif invalid == "constr_iterations_negative":
        kw["constr_iterations"] = draw(st.sampled_from([-1, -5, -100, np.int64(-1), -1.0]))
    elif invalid == "max_iterations_nonpositive":
        assert cfg["method"] == "variational_gamma"
        kw["max_iterations"] = draw(st.sampled_from([0, -1, -25, np.int64(0), 0.0]))
    elif invalid == "unknown_method":
        cfg["entry"] = "date"
        cfg["method_kw"] = draw(st.sampled_from(["foo", "", "Variational_gamma", "inside-outside",
                                                 "maximisation", "variational_gamma ", "EP"]))
    elif invalid == "popsize_with_variational":
        assert cfg["method"] == "variational_gamma"
        cfg["popsize"] = draw(popsize_spec())
        cfg["use_Ne"] = False
    elif invalid == "priors_with_variational":
        assert cfg["method"] == "variational_gamma"
        cfg["priors"] = draw(priors_spec())
    elif invalid == "eps_with_variational":
        assert cfg["method"] == "variational_gamma"
        kw["eps"] = draw(st.sampled_from([1e-8, 1e-6, 0.0, 1.0, np.float64(1e-8)]))
    elif invalid == "no_mutations_with_variational":
        assert cfg["method"] == "variational_gamma"
        cfg["strip_mutations"] = True
    elif invalid == "Ne_and_population_size":
        assert cfg["method"] != "variational_gamma"
        cfg["priors"] = None
        cfg["popsize"] = ("float", draw(st.sampled_from([1.0, 100.0, 1e4])))
        cfg["use_Ne"] = False
        cfg["Ne_extra"] = draw(st.sampled_from([1.0, 100.0, 1e4]))
    elif invalid == "priors_and_population_size":
        assert cfg["method"] != "variational_gamma"
        cfg["priors"] = draw(priors_spec())
        cfg["popsize"] = draw(popsize_spec())
        cfg["use_Ne"] = False
    else:
        raise ValueError(invalid)


VG_ONLY = {"max_iterations_nonpositive", "popsize_with_variational", "priors_with_variational",
           "eps_with_variational", "no_mutations_with_variational"}
DISCRETE_ONLY = {"Ne_and_population_size", "priors_and_population_size"}


@st.composite
def date_config_any(draw, method=None, hints=(), p_invalid_num=1, p_invalid_den=6):
    """method fixed by the caller or drawn; one invalid-parameter class in p_num/p_den of the cases
    (only classes that exist for the method)."""
    method = method or draw(st.sampled_from(METHODS + ["variational_gamma"]))
    if draw(st.integers(0, p_invalid_den - 1)) < p_invalid_num:
        classes = [c for c in INVALID_CLASSES
                   if not (c in VG_ONLY and method != "variational_gamma")
                   and not (c in DISCRETE_ONLY and method == "variational_gamma")]
        invalid = classes[draw(st.integers(0, len(classes) - 1))]
        return draw(date_config(method=method, invalid=invalid, hints=hints))
    return draw(date_config(method=method, hints=hints))


def invalid_enumeration():
    """Deterministic list of configurations covering every invalid-parameter class of the statement
    with every value of its pool, for every method it applies to and both entry points."""
    nan, inf = float("nan"), float("inf")
    nonpos = [0, 0.0, -0.0, -1.0, -1e-8, -1e-300, nan, -inf, np.float64(0.0), np.float32(-1.0), np.int64(0)]
    out = []

    def base(method, entry):
        kw = dict(mutation_rate=1e-3)
        if method == "variational_gamma":
            kw["rescaling_intervals"] = 0
        return dict(entry=entry, method=method, method_kw=method, kwargs=kw,
                    popsize=None if method == "variational_gamma" else ("float", 100.0),
                    priors=None, invalid=None, use_Ne=False)

    def add(method, entry, invalid, **changes):
        cfg = base(method, entry)
        cfg["invalid"] = invalid
        for k, v in changes.items():
            if k.startswith("kw_"):
                cfg["kwargs"][k[3:]] = v
            else:
                cfg[k] = v
        out.append(cfg)

    grid = dict(population_size=100.0, timepoints=5, prior_distribution="lognorm")
    for entry in ("date", "direct"):
        for method in METHODS:
            for v in nonpos:
                add(method, entry, "mutation_rate_nonpositive", kw_mutation_rate=v)
                add(method, entry, "min_branch_length_nonpositive", kw_min_branch_length=v)
            for v in [0, 0.0, -1e-8, nan]:
                add(method, entry, "recombination_rate_nonpositive", kw_recombination_rate=v)
            for v in [-1, -5, -100, np.int64(-1), -1.0]:
                add(method, entry, "constr_iterations_negative", kw_constr_iterations=v)
            if method == "variational_gamma":
                for v in [0, -1, -25, np.int64(0), 0.0]:
                    add(method, entry, "max_iterations_nonpositive", kw_max_iterations=v)
                for spec in [("float", 100.0), ("float", np.float64(1.0)), ("dict", dict(population_size=[1.0, 10.0], time_breaks=[5.0])),
                             ("psh", dict(population_size=[100.0]))]:
                    add(method, entry, "popsize_with_variational", popsize=spec)
                add(method, entry, "priors_with_variational", priors=dict(grid))
                for v in [1e-8, 1e-6, 0.0, 1.0, np.float64(1e-8)]:
                    add(method, entry, "eps_with_variational", kw_eps=v)
                add(method, entry, "no_mutations_with_variational", strip_mutations=True)
            else:
                add(method, entry, "Ne_and_population_size", Ne_extra=100.0)
                add(method, entry, "Ne_and_population_size", Ne_extra=1.0, popsize=("float", 1e4))
                add(method, entry, "priors_and_population_size", priors=dict(grid))
                add(method, entry, "priors_and_population_size", priors=dict(grid), popsize=("psh", dict(population_size=[100.0])))
    for bad in ["foo", "", "Variational_gamma", "inside-outside", "maximisation", "variational_gamma ", "EP", "date"]:
        for method in METHODS:
            add(method, "date", "unknown_method", method_kw=bad)
    return out


# --------------------------------------------------------------------------
# C34: argv vectors from the parser's own option table
# --------------------------------------------------------------------------

# Independent model of what each command-line option means for the Python API:
# parser dest -> (API keyword, value kind). Written from the help texts / API docs, not
# from run_date()/run_preprocess().
DATE_API = {
    "mutation_rate": ("mutation_rate", "float"),
    "recombination_rate": ("recombination_rate", "float"),
    "epsilon": ("eps", "float"),
    "min_branch_length": ("min_branch_length", "float"),
    "method": ("method", "str"),
    "progress": ("progress", "flag"),
    "verbosity": (None, "count"),  # logging only, no API counterpart
    "rescaling_intervals": ("rescaling_intervals", "int"),
    "max_iterations": ("max_iterations", "int"),
    "population_size": ("population_size", "float"),
    "num_threads": ("num_threads", "int"),
    "probability_space": ("probability_space", "str"),
}
PREPROCESS_API = {
    "minimum_gap": ("minimum_gap", "float"),
    "erase_flanks": ("erase_flanks", "bool"),
    "split_disjoint": ("split_disjoint", "bool"),
    "verbosity": (None, "count"),
}
API_TABLE = {"date": DATE_API, "preprocess": PREPROCESS_API}

# value pools (strings as typed on a command line): (valid-looking, unparseable)
VALUES = {
    ("date", "mutation_rate"): ["1e-2", "1e-3", "0.001", "1e-4", "1e-6", "1e-8", "1", "0", "-1e-8", "nan"],
    ("date", "recombination_rate"): ["1e-8", "0", "1"],
    ("date", "epsilon"): ["1e-8", "1e-6", "1e-10", "0.001", "1e-08"],
    ("date", "min_branch_length"): ["1e-8", "1e-3", "1", "10", "0.5", "100", "0", "-1"],
    ("date", "method"): ["variational_gamma", "inside_outside", "maximization", "inside_outside",
                         "maximization", "bad_method", "variational"],
    ("date", "rescaling_intervals"): ["0", "1", "2", "5", "0", "2", "1000", "-1"],
    ("date", "max_iterations"): ["1", "2", "3", "10", "0", "-2"],
    ("date", "population_size"): ["1", "100", "10000", "1e4", "0.5", "0", "-5"],
    ("date", "num_threads"): ["1", "1", "2", "0"],
    ("date", "probability_space"): ["logarithmic", "linear", "linear", "foo"],
    ("preprocess", "minimum_gap"): ["1", "2", "5", "20", "100", "1000000", "0.5", "1e3", "0", "-1"],
    ("preprocess", "erase_flanks"): ["True", "False", "False", "true", "false", "0", "1"],
    ("preprocess", "split_disjoint"): ["True", "False", "False", "true", "false", "0", "1"],
}
UNPARSEABLE = {"float": ["abc", "1e", "1,5", ""], "int": ["abc", "2.5", "1e3", ""], "bool": []}
BOOL_WORDS = {"True": True, "true": True, "1": True, "False": False, "false": False, "0": False}


def option_table(subcommand):
    """[(dest, [option strings], kind)] read from the real parser (every option it accepts)."""
    import argparse

    from tsdate import cli

    top = cli.tsdate_cli_parser()
    sub = None
    for a in top._actions:
        if isinstance(a, argparse._SubParsersAction):
            sub = a.choices[subcommand]
    out = []
    for a in sub._actions:
        if not a.option_strings or isinstance(a, argparse._HelpAction):
            continue
        if isinstance(a, argparse._StoreTrueAction):
            kind = "flag"
        elif isinstance(a, argparse._CountAction):
            kind = "count"
        else:
            kind = "value"
        out.append((a.dest, list(a.option_strings), kind))
    return out


_TABLES = {}


def cached_option_table(subcommand):
    if subcommand not in _TABLES:
        _TABLES[subcommand] = option_table(subcommand)
    return _TABLES[subcommand]


@st.composite
def argv_options(draw, subcommand, steer_valid=True):
    """A list of (dest, alias, value-or-None, joined) in command-line order. Options come from the
    real parser's table; values from the pools above. steer_valid biases towards combinations that
    the API accepts (so that most cases compare outputs), without excluding the others."""
    table = cached_option_table(subcommand)
    model = API_TABLE[subcommand]
    opts = []
    method = "variational_gamma"
    if subcommand == "date":
        method = draw(st.sampled_from(["variational_gamma", "variational_gamma", "inside_outside", "maximization"]))
    wild = draw(st.integers(0, 4)) == 0  # 20 %: any option with any value
    for dest, aliases, kind in table:
        if dest not in model:
            continue  # an option this model does not know: reported by the check
        p = 3  # 1 in 3
        include = draw(st.integers(0, p - 1)) == 0
        val = None
        if subcommand == "date" and not wild and steer_valid:
            vg = method == "variational_gamma"
            if dest == "method":
                include = not vg or draw(st.booleans())
                val = method
            elif dest == "mutation_rate":
                include = draw(st.integers(0, 9)) > 0
                val = draw(st.sampled_from(VALUES[(subcommand, dest)][:7]))
            elif dest == "population_size":
                include = not vg
                val = draw(st.sampled_from(VALUES[(subcommand, dest)][:5]))
            elif dest in ("num_threads", "probability_space"):
                include = include and not vg
                val = draw(st.sampled_from(VALUES[(subcommand, dest)][:3]))
            elif dest == "rescaling_intervals":
                include = vg and draw(st.integers(0, 3)) > 0
                val = draw(st.sampled_from(VALUES[(subcommand, dest)][:6]))
            elif dest == "max_iterations":
                include = vg and include
                val = draw(st.sampled_from(VALUES[(subcommand, dest)][:4]))
            elif dest == "recombination_rate":
                include = draw(st.integers(0, 19)) == 0
            elif dest == "epsilon":
                include = include and (not vg or draw(st.integers(0, 7)) == 5)
            elif dest == "min_branch_length":
                val = draw(st.sampled_from(VALUES[(subcommand, dest)][:6]))
        if not include:
            continue
        alias = draw(st.sampled_from(aliases))
        if kind == "flag":
            opts.append((dest, alias, None, False))
            continue
        if kind == "count":
            if alias == "-v" and draw(st.booleans()):
                alias = "-vv"
            opts.append((dest, alias, None, False))
            continue
        if val is None:
            pool = VALUES.get((subcommand, dest))
            if pool is None:
                continue
            val = draw(st.sampled_from(pool))
            if draw(st.integers(0, 24)) == 0:
                bad = UNPARSEABLE.get(model[dest][1], [])
                if bad:
                    val = draw(st.sampled_from(bad))
        joined = draw(st.booleans()) or val.startswith("-") or val == ""
        opts.append((dest, alias, val, joined))
        if draw(st.integers(0, 29)) == 0:  # the same option twice: the last one wins
            val2 = draw(st.sampled_from(VALUES[(subcommand, dest)][:3]))
            opts.append((dest, draw(st.sampled_from(aliases)), val2, True))
    order = draw(st.permutations(list(range(len(opts)))))
    return [opts[i] for i in order]


def render_argv(subcommand, infile, outfile, opts, extra_positional=None, positional_first=True):
    args = []
    for dest, alias, val, joined in opts:
        if val is None:
            args.append(alias)
        elif joined and (val != "" or alias.startswith("--")):
            if alias.startswith("--"):
                args.append(f"{alias}={val}")
            else:
                args.append(f"{alias}{val}")
        else:
            args += [alias, val]
    pos = [infile, outfile] + ([extra_positional] if extra_positional is not None else [])
    return [subcommand] + (pos + args if positional_first else args + pos)
