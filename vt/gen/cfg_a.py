"""
G-CFG (method / option strategy) and the input classes shared by the dating-output checks
C01, C03, C04 and C05.

Everything is a Hypothesis draw. Only inputs the three methods are documented / observed to
accept are produced *on purpose*; combinations that tsdate rejects cleanly (ValueError /
NotImplementedError) are classified by `run_dating` and discarded by the callers.

case layout (plain data + one TreeSequence, so the runner can encode it):
    dict(ts=<TreeSequence>, method=str, via="date"|"named", kw=dict(<keyword args>), cls=[labels])
"""

import numpy as np
import tskit
from hypothesis import strategies as st

from vt.common import call, exc_key, node_is_sample
from vt.gen import ts as G

METHODS = ("variational_gamma", "inside_outside", "maximization")
DISCRETE = ("inside_outside", "maximization")


# --------------------------------------------------------------------------
# mutators of my own (each keeps the tree sequence valid)
# --------------------------------------------------------------------------


def _finish(tables):
    tables.mutations.time = np.full(tables.mutations.num_rows, tskit.UNKNOWN_TIME)
    tables.sort()
    tables.build_index()
    tables.compute_mutation_parents()
    return tables.tree_sequence()


def leaf_samples(ts):
    """sample nodes that are never a parent"""
    is_parent = np.zeros(ts.num_nodes, dtype=bool)
    is_parent[ts.edges_parent] = True
    return np.flatnonzero(node_is_sample(ts) & ~is_parent)


def internal_samples(ts):
    is_parent = np.zeros(ts.num_nodes, dtype=bool)
    is_parent[ts.edges_parent] = True
    return np.flatnonzero(node_is_sample(ts) & is_parent)


def historical_leaves(ts, picks, fracs):
    """Give some leaf samples a positive time strictly below all of their parents."""
    leaves = leaf_samples(ts)
    if len(leaves) == 0:
        return ts
    t = ts.nodes_time.copy()
    minpar = np.full(ts.num_nodes, np.inf)
    np.minimum.at(minpar, ts.edges_child, t[ts.edges_parent])
    for k, pk in enumerate(picks):
        u = leaves[pk % len(leaves)]
        if not np.isfinite(minpar[u]):
            continue
        new = t[u] + fracs[k % len(fracs)] * (minpar[u] - t[u])
        if t[u] <= new < minpar[u]:
            t[u] = new
    tables = ts.dump_tables()
    tables.nodes.time = t
    return _finish(tables)


def mark_internal_samples(ts, picks):
    """Flag internal (parent) nodes as samples at their current time."""
    is_parent = np.zeros(ts.num_nodes, dtype=bool)
    is_parent[ts.edges_parent] = True
    cands = np.flatnonzero(is_parent & ~node_is_sample(ts))
    if len(cands) == 0:
        return ts
    flags = ts.nodes_flags.copy()
    for pk in picks:
        flags[cands[pk % len(cands)]] |= tskit.NODE_IS_SAMPLE
    tables = ts.dump_tables()
    tables.nodes.flags = flags
    return _finish(tables)


def insert_unary_samples(ts, picks, fracs):
    """Split edges with a new *sample* node strictly between child and parent (a unary
    sample: variational_gamma exempts samples from its unary-node test)."""
    if ts.num_edges == 0:
        return ts
    tables = ts.dump_tables()
    t = ts.nodes_time
    edges = list(ts.edges())
    chosen = {}
    for k, pk in enumerate(picks):
        chosen.setdefault(pk % len(edges), fracs[k % len(fracs)])
    tables.edges.clear()
    for e in edges:
        if e.id in chosen:
            lo, hi = t[e.child], t[e.parent]
            tm = lo + chosen[e.id] * (hi - lo)
            if lo < tm < hi:
                u = tables.nodes.add_row(flags=tskit.NODE_IS_SAMPLE, time=tm)
                tables.edges.add_row(e.left, e.right, e.parent, u)
                tables.edges.add_row(e.left, e.right, u, e.child)
                continue
        tables.edges.add_row(e.left, e.right, e.parent, e.child)
    return _finish(tables)


def add_diploid_individuals(ts, skip):
    """Pair consecutive time-0 leaf samples into diploid individuals (what
    singletons_phased=False requires); `skip` leaves that many leading leaves haploid-less."""
    tables = ts.dump_tables()
    tables.individuals.clear()
    ind = np.full(ts.num_nodes, tskit.NULL, dtype=np.int32)
    leaves = [u for u in leaf_samples(ts) if ts.nodes_time[u] == 0.0][skip:]
    for i in range(0, len(leaves) - 1, 2):
        iid = tables.individuals.add_row(flags=0)
        ind[leaves[i]] = iid
        ind[leaves[i + 1]] = iid
    tables.nodes.individual = ind
    return tables.tree_sequence()


def squeeze_trees(ts, widths):
    """Piecewise-linear strictly increasing map of the genome: tree i gets width widths[i % len].
    Produces tiny-span edges next to wide ones."""
    bps = ts.breakpoints(as_array=True)
    w = np.array([widths[i % len(widths)] for i in range(len(bps) - 1)], dtype=float)
    new_bps = np.concatenate([[0.0], np.cumsum(w)])

    def f(x):
        x = np.asarray(x, dtype=float)
        i = np.clip(np.searchsorted(bps, x, side="right") - 1, 0, len(w) - 1)
        return new_bps[i] + (x - bps[i]) / (bps[i + 1] - bps[i]) * w[i]

    tables = ts.dump_tables()
    pos = f(tables.sites.position)
    if len(pos) > 1 and np.any(np.diff(pos) <= 0):
        return ts
    # edge ends are breakpoints: map them exactly
    left = new_bps[np.searchsorted(bps, tables.edges.left)]
    right = new_bps[np.searchsorted(bps, tables.edges.right)]
    if np.any(pos >= new_bps[-1]) or np.any(right <= left):
        return ts
    tables.sequence_length = float(new_bps[-1])
    tables.edges.left = left
    tables.edges.right = right
    tables.sites.position = pos
    return _finish(tables)


def heavy_edge(ts, edge_pick, count):
    """`count` extra single-mutation sites on one edge (evenly spread over its span)."""
    if ts.num_edges == 0:
        return ts
    e = ts.edge(edge_pick % ts.num_edges)
    tables = ts.dump_tables()
    used = set(tables.sites.position)
    for j in range(count):
        pos = e.left + (e.right - e.left) * (j + 0.5) / count
        if pos in used or not (e.left <= pos < e.right):
            continue
        used.add(pos)
        s = tables.sites.add_row(position=pos, ancestral_state="0")
        tables.mutations.add_row(site=s, node=e.child, derived_state="1")
    return _finish(tables)


def strip_mutations_in_narrow_trees(ts, max_span):
    """Remove the sites that fall in trees narrower than max_span (zero-mutation tiny edges)."""
    tables = ts.dump_tables()
    bps = ts.breakpoints(as_array=True)
    i = np.searchsorted(bps, tables.sites.position, side="right") - 1
    keep_site = (bps[i + 1] - bps[i]) >= max_span
    if keep_site.all() or keep_site.sum() == 0:
        return ts
    tables.delete_sites(np.flatnonzero(~keep_site))
    return _finish(tables)


# --------------------------------------------------------------------------
# input classes
# --------------------------------------------------------------------------


@st.composite
def discrete_input(draw, tier, root_muts=True):
    """Accepted by all three methods: contemporaneous, no unary nodes, one root per tree."""
    ts = draw(G.general_ts(tier=tier, contemporaneous=True, single_root=True, min_muts=1,
                           root_muts=root_muts))
    cls = ["in=plain"]
    if root_muts and draw(st.integers(0, 3)) == 0:
        ts = G.add_root_and_isolated_mutations(ts, 1, 0, draw(st.lists(st.integers(0, 7), min_size=1, max_size=3)))
    return ts, cls


@st.composite
def variational_input(draw, tier, want=None):
    """Inputs for variational_gamma: everything `discrete_input` gives plus historical leaf
    samples, internal (non-unary and unary) samples, multiple roots, locally missing samples.
    `want` forces a mutator class ("internal", "unary", "historical")."""
    cls = []
    base = draw(st.sampled_from(["plain", "plain", "multiroot", "missing", "simhist"]))
    if base == "plain":
        ts = draw(G.general_ts(tier=tier, contemporaneous=True, single_root=True, min_muts=1))
    elif base == "multiroot":
        ts = draw(G.general_ts(tier=tier, contemporaneous=True, single_root=False, min_muts=1))
    elif base == "missing":
        ts = draw(G.general_ts(tier=tier, contemporaneous=True, single_root=True, min_muts=1, missing=True))
    else:
        ts = draw(G.general_ts(tier=tier, contemporaneous=False, single_root=True, min_muts=1))
    cls.append("in=" + base)
    muts = draw(st.lists(st.sampled_from(["historical", "internal", "unary", "rootmut"]), max_size=3, unique=True))
    if want is not None and want not in muts:
        muts.append(want)
    fr = st.lists(st.sampled_from([0.0625, 0.25, 0.5, 0.75, 0.9375]), min_size=1, max_size=3)
    pk = st.lists(st.integers(0, 1000), min_size=1, max_size=3)
    # order: internal flags first (they do not move times), then unary insertions, then leaf times
    if "internal" in muts:
        ts = mark_internal_samples(ts, draw(pk))
    if "unary" in muts:
        ts = insert_unary_samples(ts, draw(pk), draw(fr))
    if "historical" in muts:
        ts = historical_leaves(ts, draw(pk), draw(fr))
    if "rootmut" in muts:
        ts = G.add_root_and_isolated_mutations(ts, 1, 0, draw(st.lists(st.integers(0, 7), min_size=1, max_size=3)))
    k = draw(st.sampled_from([0, 0, 0, -6, -3, 3, 6, 9, 12]))
    if k != 0:
        ts = G.scale_times(ts, 10.0 ** k)
        cls.append(f"in_time_scale=1e{k}")
    return ts, cls


def input_labels(ts):
    """class labels derived from the input itself (not from how it was generated)"""
    out = []
    t = ts.nodes_time
    smp = ts.samples()
    if len(internal_samples(ts)) > 0:
        out.append("has_internal_sample")
        for tree in ts.trees():
            if any(tree.num_children(u) == 1 for u in internal_samples(ts)):
                out.append("has_unary_sample")
                break
    leaves = leaf_samples(ts)
    if np.any(t[leaves] > 0):
        out.append("has_historical_leaf")
    if not np.all(t[smp] == t[smp][0]):
        out.append("noncontemporaneous")
    if any(tree.num_roots > 1 for tree in ts.trees()):
        out.append("multi_root_or_isolated")
    if ts.num_sites and np.any(np.bincount(ts.mutations_site, minlength=ts.num_sites) > 1):
        out.append("multi_mutation_site")
    if ts.num_trees > 1:
        out.append("multi_tree")
    for tree in ts.trees():
        if any(tree.num_children(u) > 2 for u in tree.nodes()):
            out.append("polytomy")
            break
    return out


def has_root_mutation(ts):
    for tree in ts.trees():
        for site in tree.sites():
            for m in site.mutations:
                if tree.parent(m.node) == tskit.NULL:
                    return True
    return False


# --------------------------------------------------------------------------
# option strategies
# --------------------------------------------------------------------------


@st.composite
def generic_options(draw, eps_range=(-12, 2), constr=(None, None, 0, 1, 5, 100), set_metadata=(None, True, False)):
    kw = {}
    k = draw(st.one_of(st.none(), st.integers(*eps_range)))
    if k is not None:
        kw["min_branch_length"] = 10.0 ** k
    ci = draw(st.sampled_from(list(constr)))
    if ci is not None:
        kw["constr_iterations"] = ci
    sm = draw(st.sampled_from(list(set_metadata)))
    if sm is not None:
        kw["set_metadata"] = sm
    if draw(st.integers(0, 4)) == 0:
        kw["record_provenance"] = False
    if draw(st.integers(0, 4)) == 0:
        kw["time_units"] = draw(st.sampled_from(["generations", "years", "uncalibrated"]))
    if draw(st.integers(0, 5)) == 0:
        kw["return_likelihood"] = True
    return kw


@st.composite
def variational_options(draw, stress=False, unphased=None, rescale=(0, 0, 0, 0, 2, 5)):
    kw = {}
    if stress:
        kw["max_iterations"] = draw(st.sampled_from([1, 1, 2, 2, 3, 10]))
        kw["max_shape"] = draw(st.sampled_from([1.5, 2.0, 2.0, 3.0, 5.0, 1000.0]))
    else:
        kw["max_iterations"] = draw(st.sampled_from([1, 2, 3, 5, 10, 25]))
        ms = draw(st.sampled_from([None, None, 1.5, 5.0, 100.0, 1e4]))
        if ms is not None:
            kw["max_shape"] = ms
    kw["rescaling_intervals"] = draw(st.sampled_from(list(rescale)))
    if kw["rescaling_intervals"] > 0:
        ri = draw(st.sampled_from([None, 0, 1, 3, 6]))
        if ri is not None:
            kw["rescaling_iterations"] = ri
        if draw(st.booleans()):
            kw["match_segregating_sites"] = draw(st.booleans())
    if draw(st.integers(0, 3)) == 0:
        kw["regularise_roots"] = draw(st.booleans())
    up = draw(st.integers(0, 3)) == 0 if unphased is None else unphased
    if up:
        kw["singletons_phased"] = False
    return kw


@st.composite
def discrete_options(draw, method):
    kw = {}
    if draw(st.integers(0, 2)) == 0:
        kw["eps"] = 10.0 ** draw(st.sampled_from([-10, -8, -6, -3]))
    if draw(st.integers(0, 3)) == 0:
        kw["probability_space"] = draw(st.sampled_from(["logarithmic", "linear"]))
    if draw(st.integers(0, 5)) == 0:
        kw["num_threads"] = 1
    if draw(st.integers(0, 5)) == 0:
        kw["cache_inside"] = True
    if method == "inside_outside":
        if draw(st.integers(0, 4)) == 0:
            kw["outside_standardize"] = draw(st.booleans())
        if draw(st.integers(0, 4)) == 0:
            kw["ignore_oldest_root"] = draw(st.booleans())
    return kw


def mutation_rate_for(draw, ts, spread=(-6, -3, 0, 0, 3, 6, 9, 12)):
    """A mutation rate such that inferred times land near (input time scale) x 10^k: output
    decades from ~1e-6 to ~1e12 are all reachable whatever the genome length."""
    tot = sum(tree.total_branch_length * tree.span for tree in ts.trees())
    base = max(ts.num_mutations, 1) / max(tot, 1e-300)
    k = draw(st.sampled_from(list(spread)))
    # keep the expected output ages (input age scale x 10^k) within ~1e-7 .. 1e13
    lt = np.log10(max(float(ts.nodes_time.max()), 1e-300))
    k = min(max(k, -7 - lt), 13 - lt)
    # snap to a power of ten: rates users write down
    mu = 10.0 ** round(np.log10(base) - k)
    return float(min(max(mu, 1e-30), 1e6))


def discrete_scales(draw, ts):
    """(population_size, mutation_rate) on a common time scale = input scale x 10^k, so that the
    prior grid and the mutation clock agree (a mismatch of many decades underflows the inside
    pass, which tsdate reports as a ValueError); a +-2 decade mismatch is drawn now and then."""
    tot = sum(tree.total_branch_length * tree.span for tree in ts.trees())
    base = max(ts.num_mutations, 1) / max(tot, 1e-300)
    tmax = float(ts.nodes_time.max())
    k = draw(st.sampled_from([-6, -3, 0, 0, 0, 3, 6, 8, 9, 10, 12]))
    lt = np.log10(max(tmax, 1e-300))
    k = int(round(min(max(k, -7 - lt), 13 - lt)))
    j = draw(st.sampled_from([0, 0, 0, 0, -2, 2]))
    ne = 10.0 ** (round(np.log10(max(tmax / 2, 1e-300))) + k + j)
    mu = 10.0 ** round(np.log10(base) - k)
    return float(ne), float(min(max(mu, 1e-30), 1e6))


@st.composite
def dating_case(draw, tier, methods=METHODS, want=None, set_metadata=(None, True, False), stress=False,
                unphased=None, eps_range=(-12, 2), constr=(None, None, 0, 1, 5, 100)):
    method = draw(st.sampled_from(list(methods)))
    if method == "variational_gamma":
        ts, cls = draw(variational_input(tier, want=want))
        kw = draw(variational_options(stress=stress, unphased=unphased))
        if kw.get("singletons_phased") is False:
            ts = add_diploid_individuals(ts, draw(st.integers(0, 1)))
    else:
        ts, cls = draw(discrete_input(tier))
        kw = draw(discrete_options(method))
    kw.update(draw(generic_options(eps_range=eps_range, constr=constr, set_metadata=set_metadata)))
    if method == "variational_gamma":
        kw["mutation_rate"] = mutation_rate_for(draw, ts)
    else:
        kw["population_size"], kw["mutation_rate"] = discrete_scales(draw, ts)
    kw["return_fit"] = True
    via = draw(st.sampled_from(["date", "named"]))
    if draw(st.integers(0, 3)) == 0:
        # min_branch_length comparable to the spacing of the dated node ages (a drawn fraction of
        # the median age of a pilot run): the constraint then fires on many edges at once, including
        # edges next to internal samples, instead of only on ties
        frac = draw(st.sampled_from([0.03, 0.1, 0.3, 1.0]))
        status, res = run_dating(dict(ts=ts, method=method, via="date", kw=dict(kw)))
        if status == "ok":
            t = res[0].nodes_time
            if np.any(t > 0):
                kw["min_branch_length"] = float(frac * np.median(t[t > 0]))
                cls = list(cls) + ["eps_relative_to_ages"]
    if draw(st.integers(0, 3)) == 0:
        # node flags other than the sample bit are user data (tsinfer marks historical samples with
        # 1<<20, tsdate's own preprocessing with 1<<21): set some on samples and non-samples alike
        picks = draw(st.lists(st.integers(0, 10 ** 6), min_size=1, max_size=6))
        bits = draw(st.sampled_from([1 << 20, 1 << 21, (1 << 20) | (1 << 3), 1 << 31]))
        t = ts.dump_tables()
        fl = t.nodes.flags.copy()
        for q in picks:
            fl[q % len(fl)] |= np.uint32(bits)
        if draw(st.booleans()):  # ... and on every sample
            fl[ts.samples()] |= np.uint32(bits)
        t.nodes.flags = fl
        ts = t.tree_sequence()
        cls = list(cls) + ["extra_flag_bits"]
    return dict(ts=ts, method=method, via=via, kw=kw, cls=cls)


# --------------------------------------------------------------------------
# running a case
# --------------------------------------------------------------------------


def run_dating(case, **override):
    """-> (status, value): status in ok / rejected / internal (see vt.common.call); value is
    (dated_ts, fit[, lik]) or the exception."""
    import tsdate

    kw = dict(case["kw"])
    kw.update(override)
    if case["via"] == "date":
        return call(tsdate.date, case["ts"], method=case["method"], **kw)
    return call(getattr(tsdate, case["method"]), case["ts"], **kw)


def classify_failure(status, exc):
    """Discard reason for a call that did not return (None when status is ok).
    F2 (rescaling assertion) and F8 (unphased-singleton assertion) have their own names."""
    if status == "ok":
        return None
    if status == "rejected":
        msg = "".join(ch for ch in str(exc)[:40] if not ch.isdigit())
        return "rejected:" + msg
    key = exc_key(exc)
    if isinstance(exc, AssertionError) and "Use fewer rescaling intervals" in str(exc):
        return "internal:F2"
    if isinstance(exc, AssertionError) and "phasing.py" in key:
        return "internal:F8"
    return "internal:" + key


def raised_in(exc, funcname):
    import traceback

    return any(fr.name == funcname for fr in traceback.extract_tb(exc.__traceback__))


def option_labels(case):
    kw = case["kw"]
    out = ["method=" + case["method"], "via=" + case["via"]]
    out.append("eps=" + (f"1e{round(np.log10(kw['min_branch_length']))}" if "min_branch_length" in kw else "default"))
    out.append("constr_iterations=" + str(kw.get("constr_iterations", "default")))
    if case["method"] == "variational_gamma":
        out.append("rescaling=" + ("on" if kw.get("rescaling_intervals", 1000) > 0 and kw.get("rescaling_iterations", 5) > 0 else "off"))
        if kw.get("singletons_phased") is False:
            out.append("singletons_phased=False")
    return out


def unconstrained_means(case, dts, fit):
    """Posterior means before constraint enforcement, from the fit object (labels / NT only)."""
    ts = case["ts"]
    if case["method"] == "variational_gamma":
        return np.asarray(fit.node_posteriors()["mean"], dtype=float)
    if case["method"] == "maximization":
        return np.asarray(fit.posterior_mean, dtype=float)
    arr = fit.node_posteriors()
    tp = np.array([float(n) for n in arr.dtype.names])
    grid = arr.view(np.float64).reshape(ts.num_nodes, len(tp))
    with np.errstate(invalid="ignore"):
        mean = (grid * tp).sum(axis=1) / grid.sum(axis=1)
    s = node_is_sample(ts)
    mean[s] = ts.nodes_time[s]
    return mean


def describe(case):
    return dict(method=case["method"], via=case["via"], kw=case["kw"], cls=case["cls"], ts=G.ts_summary(case["ts"]))
