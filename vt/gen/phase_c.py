"""
Generators for the unphased-singleton properties (C22, C23): tree sequences whose
contemporary samples are grouped into diploid individuals, with drawn extra mutations on
leaf edges (so that singletons are plentiful, incl. stacked ones and ones at multi-mutation
sites), every mutation carrying a unique derived-state label so that rows can be matched
between inputs and outputs whatever tskit's sort does, and a re-phasing mutator.

tsdate's notion of "singleton" with singletons_phased=False (phasing._block_singletons):
every mutation whose node belongs to an individual; all individuals must have exactly two
nodes, both at time 0 (else ValueError). Samples without an individual are phased.
"""

import numpy as np
import tskit
from hypothesis import strategies as st

from vt.gen import ts as G


def singleton_ids(ts):
    """input mutation ids that tsdate treats as unphased singletons"""
    ind = ts.nodes_individual[ts.mutations_node]
    return np.flatnonzero(ind != tskit.NULL)


def other_node_map(ts):
    """node -> the other node of its (2-node) individual, NULL otherwise"""
    other = np.full(ts.num_nodes, tskit.NULL, dtype=np.int64)
    for ind in ts.individuals():
        if len(ind.nodes) == 2:
            a, b = ind.nodes
            other[a], other[b] = b, a
    return other


def rebuild(ts, mutation_nodes, extra=()):
    """Rewrite sites/mutations: unknown mutation times, unique derived-state labels
    ("m<k>", k = row index in the result), and within each site first the mutations on
    non-individual nodes (original order) then those on individuals' nodes (original order).
    That order is valid for every assignment of the latter to either node of their
    individual (they sit on leaves: nothing but another such mutation can be below them),
    so a tree sequence and its re-phasings have identical mutation ids.
    `extra`: (position, node) pairs of additional mutations (new or existing sites)."""
    tables = ts.dump_tables()
    per_site = {}
    anc = {}
    for site in ts.sites():
        anc[site.position] = site.ancestral_state
        per_site[site.position] = [int(mutation_nodes[m.id]) for m in site.mutations]
    for pos, node in extra:
        per_site.setdefault(float(pos), []).append(int(node))
        anc.setdefault(float(pos), "0")
    is_ind = ts.nodes_individual != tskit.NULL
    tables.sites.clear()
    tables.mutations.clear()
    k = 0
    for pos in sorted(per_site):
        s = tables.sites.add_row(position=pos, ancestral_state=anc[pos])
        nodes = per_site[pos]
        for u in [u for u in nodes if not is_ind[u]] + [u for u in nodes if is_ind[u]]:
            tables.mutations.add_row(site=s, node=u, derived_state=f"m{k}")
            k += 1
    tables.build_index()
    tables.compute_mutation_parents()
    return tables.tree_sequence()


def rephase(ts, flips):
    """Move singleton i (in order of mutation id) to its individual's other node iff flips[i].
    Returns (ts', moved ids). Mutation ids and labels are unchanged."""
    other = other_node_map(ts)
    nodes = ts.mutations_node.copy()
    moved = []
    for i, m in enumerate(singleton_ids(ts)):
        if flips[i % len(flips)] and other[nodes[m]] != tskit.NULL:
            nodes[m] = other[nodes[m]]
            moved.append(int(m))
    tables = ts.dump_tables()
    tables.mutations.node = nodes.astype(np.int32)
    tables.build_index()
    tables.compute_mutation_parents()
    return tables.tree_sequence(), moved


def group_individuals(ts, pattern):
    """Like vt.gen.ts.add_individuals, but a group that cannot be filled completely (odd
    number of samples left) gets no individual, so a pattern of 2s and 0s always yields
    exactly-diploid individuals."""
    tables = ts.dump_tables()
    tables.individuals.clear()
    ind = np.full(ts.num_nodes, tskit.NULL, dtype=np.int32)
    samples = list(ts.samples())
    i = k = 0
    while i < len(samples):
        size = pattern[k % len(pattern)]
        k += 1
        if size <= 0:
            i += 1
            continue
        grp = samples[i:i + size]
        i += size
        if len(grp) < size:
            break
        iid = tables.individuals.add_row(flags=0)
        for u in grp:
            ind[u] = iid
    tables.nodes.individual = ind
    return tables.tree_sequence()


@st.composite
def diploid_ts(draw, tier, pattern=None, contemporaneous=True):
    """Contemporaneous, single-rooted, no missing data (so every node of an individual has
    a leaf edge everywhere: the locally-isolated case is the known defect F8/C35)."""
    for attempt in range(3):  # the shared node-collapsing mutator occasionally deletes a root
        ts = draw(G.general_ts(tier=tier, contemporaneous=contemporaneous, single_root=True, min_muts=2,
                               allow_polytomy=attempt < 2))
        if G.single_rooted(ts):
            break
    samples = list(ts.samples())
    if pattern is None:
        # 2 = diploid individual, 0 = sample left without individual (phased)
        pattern = draw(st.sampled_from([[2], [2], [2], [2, 0], [0, 2, 2], [2, 2, 0, 0]]))
    ts = group_individuals(ts, pattern)
    # extra mutations on sample nodes: new sites and existing sites (finite sites, stacking)
    n_extra = draw(st.integers(0, 12))
    L = ts.sequence_length
    existing = list(ts.sites_position)
    extra = []
    for _ in range(n_extra):
        u = samples[draw(st.integers(0, len(samples) - 1))]
        if existing and draw(st.integers(0, 3)) == 0:
            pos = existing[draw(st.integers(0, len(existing) - 1))]
        else:
            pos = L * (2 * draw(st.integers(0, 63)) + 1) / 128.0
        extra.append((pos, u))
    return rebuild(ts, ts.mutations_node, extra)


def by_label(ts):
    """label -> output mutation row id"""
    return {m.derived_state: m.id for m in ts.mutations()}
