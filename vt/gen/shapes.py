"""
Small single trees by enumeration (used by C10's exhaustive sub-tier and by C38).

* `all_shapes(n)`: every unlabelled rooted tree shape with n leaves in which each internal
  node has >= 2 children (binary shapes and polytomies; 1, 2, 5, 12 shapes for n = 2..5).
* `shape_to_parent(shape)`: a labelled representative (leaves 0..n-1 first, internal nodes
  numbered children-first so the root is the last node; time of a node = its height).
* `build_tree_ts(...)`: a one-tree tskit.TreeSequence with a given number of mutations on
  every edge (one site per mutation).
* `renumber_all(ts, order)`: apply an arbitrary node permutation (samples included).
"""

import itertools

import numpy as np
import tskit


def _multisets_of_shapes(n, min_parts):
    """all sorted tuples of shapes whose leaf counts sum to n, with >= min_parts parts"""
    out = []

    def rec(remaining, parts, bound_size, bound_idx):
        if remaining == 0:
            if len(parts) >= min_parts:
                out.append(tuple(parts))
            return
        for size in range(min(remaining, bound_size), 0, -1):
            shapes = all_shapes(size)
            start = bound_idx if size == bound_size else 0
            for i in range(start, len(shapes)):
                rec(remaining - size, parts + [shapes[i]], size, i)

    rec(n, [], n - 1 if min_parts >= 2 else n, 0)
    return out


_SHAPES = {}


def all_shapes(n):
    """shapes as nested tuples; a leaf is ()"""
    if n in _SHAPES:
        return _SHAPES[n]
    if n == 1:
        res = [()]
    else:
        res = _multisets_of_shapes(n, 2)
    _SHAPES[n] = res
    return res


def num_leaves(shape):
    return 1 if shape == () else sum(num_leaves(c) for c in shape)


def shape_to_parent(shape):
    """-> (n_leaves, parent dict child->parent, times list). Root is the last node."""
    n = num_leaves(shape)
    next_leaf = [0]
    internal = []  # (height, children ids) appended children-first
    parent = {}
    times = [0.0] * n

    def rec(s):
        if s == ():
            u = next_leaf[0]
            next_leaf[0] += 1
            return u, 0.0
        kids = [rec(c) for c in s]
        h = max(k[1] for k in kids) + 1.0
        u = n + len(internal)
        internal.append(u)
        times.append(h)
        for k, _ in kids:
            parent[k] = u
        return u, h

    rec(shape)
    return n, parent, times


def build_tree_ts(n_leaves, parent, times, counts, span=1.0):
    """`counts[(child)]` or list aligned with sorted(parent.items()) = mutations on the edge
    above each non-root node."""
    tables = tskit.TableCollection(sequence_length=span)
    for u, t in enumerate(times):
        tables.nodes.add_row(flags=tskit.NODE_IS_SAMPLE if u < n_leaves else 0, time=t)
    for c, p in parent.items():
        tables.edges.add_row(0, span, p, c)
    tables.sort()
    items = sorted(parent.items())
    if not isinstance(counts, dict):
        counts = {c: k for (c, _), k in zip(items, counts)}
    total = sum(counts.values())
    j = 0
    for c, _ in items:
        for _ in range(counts.get(c, 0)):
            s = tables.sites.add_row(position=span * (j + 0.5) / max(total, 1), ancestral_state="0")
            tables.mutations.add_row(site=s, node=c, derived_state="1")
            j += 1
    tables.sort()
    tables.build_index()
    tables.compute_mutation_parents()
    return tables.tree_sequence()


def edge_count_assignments(n_edges, values=(0, 1, 3)):
    return itertools.product(values, repeat=n_edges)


def renumber_all(ts, order):
    """New id of old node u is mapping[u], where mapping is the permutation obtained by
    sorting range(n) with keys `order` (any list of ints; ties broken by old id).
    Returns (ts, mapping old->new)."""
    n = ts.num_nodes
    keys = [(order[i % len(order)] if order else 0, i) for i in range(n)]
    inv = np.array([i for _, i in sorted(keys)], dtype=np.int32)  # new -> old
    return apply_node_mapping(ts, inv)


def apply_node_mapping(ts, inv):
    """inv[new] = old"""
    n = ts.num_nodes
    inv = np.asarray(inv, dtype=np.int32)
    mapping = np.empty(n, dtype=np.int32)
    mapping[inv] = np.arange(n, dtype=np.int32)
    tables = ts.dump_tables()
    nodes = ts.dump_tables().nodes
    tables.nodes.clear()
    for new in range(n):
        tables.nodes.append(nodes[int(inv[new])])
    tables.edges.set_columns(left=tables.edges.left, right=tables.edges.right,
                             parent=mapping[tables.edges.parent], child=mapping[tables.edges.child],
                             metadata=tables.edges.metadata, metadata_offset=tables.edges.metadata_offset)
    tables.mutations.node = mapping[tables.mutations.node]
    tables.sort()
    tables.build_index()
    tables.compute_mutation_parents()
    return tables.tree_sequence(), mapping
