"""Star-like tree sequences built by construction (C20): every edge joins a non-sample parent
to a sample at time zero.  In each genomic interval each sample hangs from one of K <= 3 parents
(each parent used in an interval gets >= 2 children unless unary parents are allowed), so each
tree is a forest of polytomies directly above the samples (multiple roots).  Mutations sit above
samples (they map to the edge covering their site) and, optionally, above the parents (roots:
they map to no edge)."""

import tskit
from hypothesis import strategies as st


class StarSpec:
    """plain description of a star-like input, from which both the tree sequence and the
    closed-form oracle are derived"""

    def __init__(self, n, breaks, assign, muts_on_samples, muts_on_roots, parent_times):
        self.n = n  # samples 0..n-1
        self.breaks = breaks  # [0, b1, ..., L]
        self.assign = assign  # assign[interval][sample] -> parent index in 0..K-1
        self.muts_on_samples = muts_on_samples  # list of (interval, sample, count)
        self.muts_on_roots = muts_on_roots  # list of (interval, parent index, count)
        self.parent_times = parent_times  # K positive times

    def __vt_encode__(self):
        return dict(n=self.n, breaks=list(self.breaks), assign=[list(a) for a in self.assign],
                    ms=[list(m) for m in self.muts_on_samples], mr=[list(m) for m in self.muts_on_roots],
                    pt=list(self.parent_times))

    @classmethod
    def __vt_decode__(cls, d):
        return cls(d["n"], d["breaks"], d["assign"], [tuple(m) for m in d["ms"]], [tuple(m) for m in d["mr"]], d["pt"])

    # -- derived ---------------------------------------------------------------------------
    def parents_used(self):
        return sorted({p for a in self.assign for p in a})

    def edges(self):
        """merged (left, right, parent_index, sample) records"""
        out = []
        for s in range(self.n):
            cur = None
            for i, a in enumerate(self.assign):
                left, right = self.breaks[i], self.breaks[i + 1]
                if cur is not None and cur[2] == a[s]:
                    cur[1] = right
                else:
                    if cur is not None:
                        out.append(tuple(cur))
                    cur = [left, right, a[s], s]
            out.append(tuple(cur))
        return out

    def oracle(self):
        """per parent index: (total mutations on its edges, total span of its edges)"""
        y = {}
        span = {}
        for i, a in enumerate(self.assign):
            w = self.breaks[i + 1] - self.breaks[i]
            for s in range(self.n):
                span[a[s]] = span.get(a[s], 0.0) + w
                y.setdefault(a[s], 0)
        for i, s, c in self.muts_on_samples:
            y[self.assign[i][s]] += c
        return y, span

    def tree_sequence(self):
        tb = tskit.TableCollection(sequence_length=float(self.breaks[-1]))
        for _ in range(self.n):
            tb.nodes.add_row(flags=tskit.NODE_IS_SAMPLE, time=0.0)
        used = self.parents_used()
        node_of = {}
        for p in sorted(used, key=lambda p: self.parent_times[p]):
            node_of[p] = tb.nodes.add_row(flags=0, time=float(self.parent_times[p]))
        for left, right, p, s in self.edges():
            tb.edges.add_row(float(left), float(right), node_of[p], s)
        # sites: interval i gets its mutations at distinct positions inside the interval
        per_interval = {}
        for i, s, c in self.muts_on_samples:
            per_interval.setdefault(i, []).extend([s] * c)
        for i, p, c in self.muts_on_roots:
            if p in set(self.assign[i]):
                per_interval.setdefault(i, []).extend([node_of[p]] * c)
        for i in sorted(per_interval):
            nodes = per_interval[i]
            left, right = self.breaks[i], self.breaks[i + 1]
            for k, u in enumerate(nodes):
                pos = left + (right - left) * (k + 0.5) / len(nodes)
                sid = tb.sites.add_row(position=float(pos), ancestral_state="0")
                tb.mutations.add_row(site=sid, node=int(u), derived_state="1", time=tskit.UNKNOWN_TIME)
        tb.sort()
        return tb.tree_sequence(), node_of

    def summary(self):
        y, span = self.oracle()
        return dict(n=self.n, trees=len(self.assign), parents=len(self.parents_used()),
                    y={str(k): v for k, v in y.items()}, span={str(k): v for k, v in span.items()},
                    root_muts=sum(c for _, _, c in self.muts_on_roots))


@st.composite
def star_spec(draw, allow_unary=False):
    n = draw(st.integers(2, 10))
    nb = draw(st.integers(0, 4))
    widths = [draw(st.sampled_from([1.0, 3.0, 10.0, 100.0, 1000.0, 12345.0])) for _ in range(nb + 1)]
    breaks = [0.0]
    for w in widths:
        breaks.append(breaks[-1] + w)
    K = draw(st.integers(1, 3))
    assign = []
    for _ in range(nb + 1):
        a = [draw(st.integers(0, K - 1)) for _ in range(n)]
        if not allow_unary:
            # every parent used in the interval needs >= 2 children: move lone children to a
            # parent that already has some (n >= 2 guarantees one exists)
            while True:
                counts = {p: a.count(p) for p in set(a)}
                lone = [p for p, c in counts.items() if c == 1]
                if not lone:
                    break
                big = max(counts, key=lambda p: (counts[p], -p))
                s = a.index(lone[0])
                a[s] = big if big != lone[0] else [p for p in counts if p != lone[0]][0]
        assign.append(a)
    pt = [1.0, 2.0, 3.0]
    ymax = draw(st.sampled_from([1, 3, 3, 10, 40]))
    muts = []
    for i in range(nb + 1):
        for s in range(n):
            c = draw(st.integers(0, ymax)) if draw(st.booleans()) else 0
            if c:
                muts.append((i, s, c))
    if not muts:
        muts.append((0, 0, 1))
    mr = []
    if draw(st.booleans()):
        for i in range(nb + 1):
            if draw(st.booleans()):
                mr.append((i, draw(st.integers(0, K - 1)), draw(st.integers(1, 3))))
    return StarSpec(n, breaks, assign, muts, mr, pt)


def has_unary(spec):
    for a in spec.assign:
        if any(a.count(p) == 1 for p in set(a)):
            return True
    return False
