"""
Helpers shared by the discrete-time checks C11, C12, C13 (builder D2).

* drawn configurations (prior specification, mutation rate, eps) and a runner for the
  discrete methods that always builds a *fresh* prior object (BeliefPropagation converts
  the prior it is given to the likelihood's probability space in place);
* the DAG view of a tree sequence (distinct edges per child, parents-first order by Kahn's
  algorithm, mutation counts per edge);
* the maximization objective recomputed from `fit.inside` and the parents' assigned
  timepoints with scipy.stats.poisson (never with tsdate's likelihood classes), always in
  the log domain so that the oracle itself cannot underflow;
* tie / underflow margins used by the three checks.
"""

import numpy as np
import scipy.stats
import tskit
from hypothesis import strategies as st

import tsdate

from vt.common import call, node_is_sample

LIN = "linear"
LOG = "logarithmic"
TIE_TOL = 1e-9  # relative difference of two objective values below which argmax may flip


# --------------------------------------------------------------------------
# drawn configurations
# --------------------------------------------------------------------------

GRID_SHAPES = {
    # multiples of the population size; all start at 0 (the documented form)
    "coarse": [0.0, 0.5, 2.0],
    "geom": [0.0, 0.01, 0.03, 0.1, 0.3, 1.0, 3.0, 10.0],
    "dense": [0.0] + [0.05 * 1.35 ** i for i in range(18)],
    # far beyond any coalescent quantile: the lognormal/gamma cdf saturates at 1.0 and the
    # prior of young nodes is *exactly* 0 on the last cells (0 in linear, -inf in log space)
    "wide": [0.0, 0.02, 0.2, 1.0, 4.0, 30.0, 1e3, 1e5, 1e8],
    "wide2": [0.0, 1e-6, 1e-3, 0.1, 1.0, 10.0, 100.0, 1e4],
    # saturates the gamma prior (exact zeros from ~60 Ne on) without forcing Poisson rates so
    # large that linear space underflows
    "sat": [0.0, 0.05, 0.3, 1.0, 3.0, 10.0, 40.0, 100.0, 300.0],
}


@st.composite
def prior_spec(draw, grids=None, favour_wide=False):
    """A JSON-able description of how the prior is obtained."""
    ne = 10.0 ** draw(st.sampled_from([0, 2, 2, 4]))
    kind = draw(st.sampled_from(["popsize", "grid_int", "grid_arr", "grid_arr"]))
    if favour_wide and draw(st.integers(0, 2)) == 0:
        return dict(kind="grid_arr", ne=ne, shape=draw(st.sampled_from(["sat", "sat", "wide", "wide2"])),
                    distr=draw(st.sampled_from(["lognorm", "gamma", "gamma"])))
    spec = dict(kind=kind, ne=ne)
    if kind == "grid_int":
        spec["timepoints"] = draw(st.sampled_from([2, 3, 5, 10, 20, 30]))
        spec["distr"] = draw(st.sampled_from(["lognorm", "gamma"]))
    elif kind == "grid_arr":
        spec["shape"] = draw(st.sampled_from(sorted(grids or GRID_SHAPES)))
        spec["distr"] = draw(st.sampled_from(["lognorm", "gamma"]))
    return spec


def prior_kwargs(ts, spec):
    """kwargs for tsdate.date: either population_size or a freshly built prior grid"""
    if spec["kind"] == "popsize":
        return dict(population_size=spec["ne"])
    if spec["kind"] == "grid_int":
        tp = int(spec["timepoints"])
    else:
        tp = np.array(GRID_SHAPES[spec["shape"]], dtype=np.float64) * spec["ne"]
    return dict(priors=tsdate.build_prior_grid(ts, spec["ne"], timepoints=tp,
                                               prior_distribution=spec["distr"]))


@st.composite
def rate_spec(draw, lo=-2, hi=1):
    """mutation rate as theta = mu * Ne * L (so that Poisson rates are O(10^lo..10^hi) per edge)"""
    return 10.0 ** draw(st.integers(lo, hi)) * draw(st.sampled_from([1.0, 1.0, 0.37, 2.5]))


def mutation_rate(ts, spec, theta):
    return theta / (spec["ne"] * ts.sequence_length)


def run_discrete(ts, method, spec, theta, eps, space, likelihood=True):
    """-> (status, (dated_ts, fit, marginal_lik) | exception)."""
    def go():
        kw = prior_kwargs(ts, spec)
        kw.update(mutation_rate=mutation_rate(ts, spec, theta), method=method, return_fit=True,
                  return_likelihood=likelihood, probability_space=space)
        if eps is not None:
            kw["eps"] = eps
        with np.errstate(all="ignore"):
            return tsdate.date(ts, **kw)
    return call(go)


# --------------------------------------------------------------------------
# DAG view
# --------------------------------------------------------------------------


class Dag:
    def __init__(self, ts):
        self.ts = ts
        n = ts.num_nodes
        self.is_sample = node_is_sample(ts)
        me = ts.mutations_edge
        self.edge_muts = np.bincount(me[me != tskit.NULL], minlength=ts.num_edges).astype(np.int64)
        self.up = [[] for _ in range(n)]  # child -> list of (edge id, parent)
        self.parents = [set() for _ in range(n)]
        self.children = [set() for _ in range(n)]
        for e, (p, c) in enumerate(zip(ts.edges_parent, ts.edges_child)):
            self.up[c].append((e, int(p)))
            self.parents[c].add(int(p))
            self.children[p].add(int(c))
        self.span = ts.edges_right - ts.edges_left
        # Kahn: parents first
        pending = np.array([len(self.parents[u]) for u in range(n)])
        stack = [u for u in range(n) if pending[u] == 0]
        order = []
        while stack:
            u = stack.pop()
            order.append(u)
            for c in sorted(self.children[u]):
                pending[c] -= 1
                if pending[c] == 0:
                    stack.append(c)
        assert len(order) == n
        self.parents_first = order


def grid_index(timepoints, values):
    """index of each value in the grid, -1 where it is not exactly a grid point"""
    tp = np.asarray(timepoints, dtype=float)
    v = np.asarray(values, dtype=float)
    i = np.clip(np.searchsorted(tp, v), 0, len(tp) - 1)
    ok = tp[i] == v
    return np.where(ok, i, -1)


def log_inside_row(fit, u):
    row = np.asarray(fit.inside[u], dtype=float)
    if fit.lik.probability_space == LOG:
        return row.copy()
    with np.errstate(divide="ignore", invalid="ignore"):
        return np.log(row)


def log_objective(fit, dag, u, assigned, mu, eps):
    """log of  inside[u][t] * prod_{edges u->p} Poisson(m_e; (T_p - tau_t + eps) mu span_e)
    for t = 0..min_p assigned[p]. Returns (obj, terms, norms): the per-edge log terms on that
    slice and, per edge, the maximum of its log term over t <= assigned[p] (the largest value
    tsdate can have normalised that edge by). For a node that is never a child: log inside[u]
    on the whole grid."""
    tp = np.asarray(fit.lik.timepoints, dtype=float)
    li = log_inside_row(fit, u)
    if not dag.up[u]:
        return li, [], []
    y = min(int(assigned[p]) for _, p in dag.up[u])
    obj = li[: y + 1].copy()
    terms, norms = [], []
    for e, p in dag.up[u]:
        ip = int(assigned[p])
        dt = tp[ip] - tp[: ip + 1] + eps
        with np.errstate(all="ignore"):
            lp = scipy.stats.poisson.logpmf(int(dag.edge_muts[e]), dt * mu * dag.span[e])
        terms.append(lp[: y + 1])
        norms.append(float(np.max(lp)))
        obj = obj + lp[: y + 1]
    return obj, terms, norms


def is_tie(a, b, tol=TIE_TOL):
    """objective values (log domain) closer than tol relative; NaN or both -inf count as ties"""
    if np.isnan(a) or np.isnan(b):
        return True
    if a == b:
        return True
    if np.isinf(a) or np.isinf(b):
        return False
    return abs(a - b) <= tol


def linear_margin(obj, terms, norms, cands):
    """For a linear-space fit: a lower bound of the log of the smallest quantity tsdate forms
    at the candidate timepoints (raw Poisson factors, the per-edge normalised product times
    the inside value). Below about -650 the linear computation (sub/under)flows there."""
    worst = 0.0
    for t in cands:
        s = obj[t]
        for lp, nm in zip(terms, norms):
            worst = min(worst, lp[t])
            s = s - nm
        worst = min(worst, s)
    return worst
