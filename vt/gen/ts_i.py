"""
Pathological-but-valid tree sequences for C35 (and small file inputs for C34).

Everything here is built on vt.gen.ts (shared, not edited) plus extra mutators; every
random choice is a Hypothesis draw. All outputs pass tables.tree_sequence().
"""

import numpy as np
import tskit
from hypothesis import strategies as st

from vt.gen import ts as G


# --------------------------------------------------------------------------
# extra mutators (each keeps the tree sequence valid)
# --------------------------------------------------------------------------


def strip_mutations(ts, keep=()):
    """Remove all mutations except those whose index (mod num_mutations) is in keep.
    Sites are kept (monomorphic sites are legal)."""
    tables = ts.dump_tables()
    keep_ids = sorted(set(k % ts.num_mutations for k in keep)) if ts.num_mutations else []
    tables.mutations.clear()
    for m in keep_ids:
        mut = ts.mutation(m)
        tables.mutations.add_row(site=mut.site, node=mut.node, derived_state=mut.derived_state)
    return G.finalize(tables)


def drop_sites(ts):
    tables = ts.dump_tables()
    tables.mutations.clear()
    tables.sites.clear()
    return tables.tree_sequence()


def delete_intervals(ts, fracs, simplify):
    """Delete genomic intervals given as fractions of the sequence (pairs). simplify=False
    leaves empty regions / flanks with isolated samples, and nodes with disjoint spans."""
    L = ts.sequence_length
    pts = sorted(set(round(f * L, 6) for f in fracs))
    pts = [p for p in pts if 0 <= p <= L]
    ivals = []
    for a, b in zip(pts[::2], pts[1::2]):
        if b > a:
            ivals.append([a, b])
    if not ivals:
        return ts
    if ivals[0][0] == 0 and ivals[0][1] >= L:
        return ts
    return ts.delete_intervals(ivals, simplify=simplify, record_provenance=False)


def isolate_sample(ts, sample_index, lo_frac, hi_frac):
    """G.remove_leaf_edge without simplification: one sample locally isolated."""
    return G.remove_leaf_edge(ts, sample_index, lo_frac, hi_frac)


def keep_unary_subset(ts, picks):
    """simplify to a subset of the samples keeping unary nodes"""
    samples = list(ts.samples())
    if len(samples) < 3:
        return ts
    drop = set(samples[i % len(samples)] for i in picks)
    keep = [s for s in samples if s not in drop]
    if len(keep) < 2:
        return ts
    return ts.simplify(keep, keep_unary=True, filter_sites=False)


def splice_unary(ts, edge_index, frac):
    """Insert a new non-sample unary node in the middle of one edge."""
    if ts.num_edges == 0:
        return ts
    e = ts.edge(edge_index % ts.num_edges)
    tp, tc = ts.nodes_time[e.parent], ts.nodes_time[e.child]
    tm = tc + frac * (tp - tc)
    if not (tc < tm < tp):
        return ts
    tables = ts.dump_tables()
    u = tables.nodes.add_row(flags=0, time=tm)
    tables.edges.clear()
    for x in ts.edges():
        if x.id == e.id:
            tables.edges.add_row(x.left, x.right, u, x.child)
            tables.edges.add_row(x.left, x.right, x.parent, u)
        else:
            tables.edges.append(x)
    tables.mutations.time = np.full(ts.num_mutations, tskit.UNKNOWN_TIME)
    return G.finalize(tables)


def flag_internal_sample(ts, pick):
    """Mark one internal node as a sample (internal, usually non-contemporary, sample)."""
    internal = [u for u in range(ts.num_nodes) if not ts.node(u).is_sample()]
    if not internal:
        return ts
    u = internal[pick % len(internal)]
    tables = ts.dump_tables()
    flags = tables.nodes.flags
    flags[u] |= tskit.NODE_IS_SAMPLE
    tables.nodes.flags = flags
    return tables.tree_sequence()


def lift_sample(ts, pick, frac):
    """Make one leaf sample historical: move it up to frac of the way to its youngest parent."""
    samples = list(ts.samples())
    if not samples:
        return ts
    s = samples[pick % len(samples)]
    par = ts.edges_parent[ts.edges_child == s]
    if par.size == 0 or np.any(ts.edges_parent == s):
        return ts
    tmin = ts.nodes_time[par].min()
    t0 = ts.nodes_time[s]
    new = t0 + frac * (tmin - t0)
    if not (t0 < new < tmin):
        return ts
    tables = ts.dump_tables()
    t = tables.nodes.time
    t[s] = new
    tables.nodes.time = t
    tables.mutations.time = np.full(ts.num_mutations, tskit.UNKNOWN_TIME)
    return G.finalize(tables)


def no_edges_ts(n, L, mut_nodes):
    """n isolated samples, no edges; optional mutations on the (isolated) samples."""
    tables = tskit.TableCollection(sequence_length=L)
    for _ in range(n):
        tables.nodes.add_row(flags=tskit.NODE_IS_SAMPLE, time=0.0)
    for j, u in enumerate(mut_nodes):
        s = tables.sites.add_row(position=L * (j + 0.5) / (len(mut_nodes) + 1), ancestral_state="0")
        tables.mutations.add_row(site=s, node=u % n, derived_state="1")
    return G.finalize(tables)


@st.composite
def base_ts(draw, tier="quick", contemporaneous=True, single_root=True, min_muts=1, max_n=8, max_trees=6,
            sim_in=3):
    """Same mix as G.general_ts but with simulated inputs only 1 time in `sim_in` (constructing an
    msprime simulator costs ~0.4 s on the loaded build machine; built inputs cost ~0.01 s)."""
    if draw(st.integers(0, sim_in - 1)) == 0:
        ts = draw(G.sim_ts(max_n=max_n, max_trees=max_trees, min_muts=min_muts,
                           historical=not contemporaneous and draw(st.booleans()),
                           models=("hudson", "smc_prime") if tier != "thorough" else ("hudson", "smc_prime", "dtwf")))
        if draw(st.integers(0, 3)) == 0:
            picks = draw(st.lists(st.integers(0, 1000), min_size=1, max_size=3))
            ts2 = G.collapse_nodes(ts, picks).simplify()
            if ts2.num_mutations >= min_muts and ts2.num_edges > 0:
                ts = ts2
        return ts
    return draw(G.built_ts(max_n=min(max_n, 8), max_trees=min(max_trees, 6), min_muts=min_muts, max_arity=4,
                           multiroot=not single_root))


# order matters a little: Hypothesis favours early elements, so benign ones come first;
# repeated names are weights
MUTATORS = ["scale_coords", "individuals", "scale_times", "root_iso_muts", "few_muts", "delete_simplify",
            "delete_nosimplify", "isolate", "unary_subset", "unary_splice", "internal_sample",
            "lift_sample", "individuals", "scale_times", "delete_nosimplify", "isolate", "zero_muts",
            "drop_sites", "edge_metadata", "migrations"]
MILD_MUTATORS = ["scale_coords", "individuals", "scale_times", "root_iso_muts", "few_muts", "scale_times",
                 "zero_muts", "edge_metadata", "migrations"]


@st.composite
def everything_ts(draw, tier="quick", mild=False):
    """(ts, [names of mutators applied]): G-TS with all mutators incl. pathological ones.
    mild=True: contemporaneous single-rooted base and only mutators that keep it acceptable to
    the discrete-time methods (so that those are not rejected at the door most of the time)."""
    big = tier == "thorough"
    applied = []
    if not mild and draw(st.integers(0, 39)) == 17:
        n = draw(st.integers(1, 4))
        muts = draw(st.lists(st.integers(0, 3), max_size=3))
        return no_edges_ts(n, draw(st.sampled_from([1.0, 100.0])), muts), ["no_edges"]
    contemporaneous = mild or draw(st.integers(0, 3)) > 0
    single_root = mild or draw(st.integers(0, 3)) > 0
    ts = draw(base_ts(tier=tier, contemporaneous=contemporaneous, single_root=single_root,
                      min_muts=draw(st.sampled_from([0, 2, 6, 6])),
                      max_n=(12 if big else 8), max_trees=(20 if big else 6), sim_in=(2 if big else 3)))
    n_mut = draw(st.sampled_from([0, 0, 1, 1, 2, 3]))
    pool = MILD_MUTATORS if mild else MUTATORS
    names = []
    for _ in range(n_mut):
        nm = pool[draw(st.integers(0, len(pool) - 1))]
        if nm not in names:
            names.append(nm)
    for name in names:
        before = ts
        ts = _apply(draw, name, ts)
        if ts is not before:
            applied.append(name)
    return ts, applied


def _apply(draw, name, ts):
    before = ts
    try:
        return _apply_unguarded(draw, name, ts)
    except tskit.LibraryError:
        return before  # a mutator that would make the tables invalid is skipped


def _apply_unguarded(draw, name, ts):
    if True:
        if name == "zero_muts":
            ts = strip_mutations(ts)
        elif name == "few_muts":
            ts = strip_mutations(ts, keep=draw(st.lists(st.integers(0, 1000), min_size=1, max_size=3)))
        elif name in ("delete_nosimplify", "delete_simplify"):
            style = draw(st.sampled_from(["flanks", "middle", "random"]))
            if style == "flanks":
                fr = [0.0, draw(st.sampled_from([0.1, 0.25, 0.5])), draw(st.sampled_from([0.6, 0.75, 0.9])), 1.0]
            elif style == "middle":
                fr = [draw(st.sampled_from([0.1, 0.25, 0.4])), draw(st.sampled_from([0.5, 0.6, 0.9]))]
            else:
                fr = draw(st.lists(st.floats(0, 1), min_size=2, max_size=6))
            ts = delete_intervals(ts, fr, simplify=(name == "delete_simplify"))
        elif name == "isolate":
            ts = isolate_sample(ts, draw(st.integers(0, 100)), draw(st.floats(0, 1)),
                                draw(st.floats(0, 1)))
        elif name == "root_iso_muts":
            ts = G.add_root_and_isolated_mutations(ts, draw(st.integers(0, 2)), draw(st.integers(0, 2)),
                                                   draw(st.lists(st.integers(0, 7), min_size=1, max_size=4)))
        elif name == "unary_subset":
            ts = keep_unary_subset(ts, draw(st.lists(st.integers(0, 100), min_size=1, max_size=3)))
        elif name == "unary_splice":
            ts = splice_unary(ts, draw(st.integers(0, 1000)), draw(st.sampled_from([0.25, 0.5, 0.75])))
        elif name == "internal_sample":
            ts = flag_internal_sample(ts, draw(st.integers(0, 1000)))
        elif name == "lift_sample":
            ts = lift_sample(ts, draw(st.integers(0, 100)), draw(st.sampled_from([0.25, 0.5, 0.9])))
        elif name == "individuals":
            ts = G.add_individuals(ts, draw(st.lists(st.sampled_from([1, 2, 2, 2, 3]), min_size=1, max_size=4)))
        elif name == "scale_times":
            ts = G.scale_times(ts, 10.0 ** draw(st.sampled_from([-6, -3, 3, 6, 9, 12])))
        elif name == "scale_coords":
            ts = G.scale_coords(ts, draw(st.sampled_from([2.0 ** -10, 0.5, 1024.0, 2.0 ** 20])))
        elif name == "drop_sites":
            ts = drop_sites(ts)
        elif name == "edge_metadata":
            ts = add_edge_metadata(ts)
        elif name == "migrations":
            ts = add_migrations(ts)
    return ts


def add_edge_metadata(ts):
    """valid input: non-empty metadata on every edge (permissive JSON schema)"""
    t = ts.dump_tables()
    t.edges.metadata_schema = tskit.MetadataSchema.permissive_json()
    t.edges.packset_metadata([b'{"a":1}'] * t.edges.num_rows)
    return t.tree_sequence()


def add_migrations(ts):
    """valid input: two populations and one migration record of the first sample"""
    t = ts.dump_tables()
    if t.populations.num_rows < 2:
        t.populations.clear()
        t.populations.metadata_schema = tskit.MetadataSchema(None)
        t.populations.add_row()
        t.populations.add_row()
        t.nodes.population = np.zeros(t.nodes.num_rows, dtype=np.int32)
    u = int(ts.samples()[0])
    tmax = float(ts.nodes_time.max())
    t.migrations.add_row(left=0, right=ts.sequence_length, node=u, source=0, dest=1,
                         time=float(ts.nodes_time[u]) + 0.5 * max(tmax - float(ts.nodes_time[u]), 1e-9))
    t.sort()
    return t.tree_sequence()


def features(ts):
    """Cheap structural labels of a tree sequence (for the label histogram)."""
    f = []
    if ts.num_mutations == 0:
        f.append("ts:no_mutations")
    if ts.num_edges == 0:
        f.append("ts:no_edges")
        return f
    if not G.is_contemporaneous(ts):
        f.append("ts:noncontemporaneous")
    multiroot = iso = empty = unary = poly = False
    for tree in ts.trees():
        if tree.num_edges == 0:
            empty = True
            continue
        roots = tree.roots
        if sum(1 for r in roots if tree.num_children(r) > 0) > 1:
            multiroot = True
        if any(tree.num_children(r) == 0 for r in roots):
            iso = True
        for u in tree.nodes():
            k = tree.num_children(u)
            if k == 1:
                unary = True
            elif k > 2:
                poly = True
    if multiroot:
        f.append("ts:multiroot")
    if iso:
        f.append("ts:isolated_sample")
    if empty:
        f.append("ts:empty_region")
    if unary:
        f.append("ts:unary")
    if poly:
        f.append("ts:polytomy")
    samples = set(ts.samples())
    if any(p in samples for p in ts.edges_parent):
        f.append("ts:internal_sample")
    if ts.num_individuals > 0:
        f.append("ts:individuals")
    if ts.num_migrations > 0:
        f.append("ts:migrations")
    if len(ts.tables.edges.metadata) > 0:
        f.append("ts:edge_metadata")
    if ts.num_mutations > 0:
        # mutations above roots / on isolated samples
        if np.any(ts.mutations_edge == tskit.NULL):
            f.append("ts:mutation_without_edge")
        used = np.zeros(ts.num_edges, dtype=bool)
        used[ts.mutations_edge[ts.mutations_edge != tskit.NULL]] = True
        if not used.all():
            f.append("ts:edges_without_mutations")
    tmax = ts.nodes_time.max()
    if tmax >= 1e6:
        f.append("ts:huge_times")
    elif tmax <= 1e-2:
        f.append("ts:tiny_times")
    return f


@st.composite
def nice_ts(draw, tier="quick"):
    """Small inputs every method accepts: contemporaneous, single-rooted, no unary nodes,
    several mutations (C34 file inputs)."""
    return draw(base_ts(tier=tier, contemporaneous=True, single_root=True, min_muts=6, max_n=8, max_trees=6,
                        sim_in=(2 if tier == "thorough" else 4)))
