"""Hypothesis strategy for piecewise-constant population size histories (used by C16, C17)."""

import numpy as np
from hypothesis import strategies as st

SIZE_STYLES = {
    "realistic": (2.0, 5.0),
    "moderate": (1.0, 6.0),
    "wide": (-2.0, 9.0),
    "narrow": (3.0, 4.0),
}


@st.composite
def history_(draw, max_epochs=8, styles=("realistic", "moderate", "wide", "narrow")):
    """dict(sizes=[diploid sizes], breaks=[strictly increasing epoch starts > 0], style=...)"""
    ne = draw(st.sampled_from([e for e in (1, 2, 2, 3, 3, 4, 5, 6, 8) if e <= max_epochs]))
    style = draw(st.sampled_from(list(styles)))
    lo, hi = SIZE_STYLES[style]
    sizes = [10.0 ** draw(st.floats(lo, hi, allow_nan=False)) for _ in range(ne)]
    if draw(st.integers(0, 5)) == 0:
        sizes = [float(round(s)) if s >= 1 else s for s in sizes]
    breaks = []
    if ne > 1:
        b = 10.0 ** draw(st.floats(-3, 6, allow_nan=False))
        if draw(st.booleans()):
            b = float(max(1, round(b)))
        breaks.append(b)
        for _ in range(ne - 2):
            nb = breaks[-1] * (1.0 + 10.0 ** draw(st.floats(-3, 2, allow_nan=False)))
            if draw(st.booleans()) and round(nb) > breaks[-1]:
                nb = float(round(nb))
            if nb <= breaks[-1]:
                nb = float(np.nextafter(breaks[-1], np.inf))
            breaks.append(nb)
    return dict(sizes=sizes, breaks=breaks, style=style)
