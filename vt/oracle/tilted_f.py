"""Reference means of the EP tilted densities (C18) by direct 1-D numerical quadrature.

Every density is the one written in the docstring of the corresponding function in
tsdate/approx.py.  Two-variable densities are reduced to one variable with an *elementary*
gamma integral (int_0^inf T^(s-1) exp(-r T) dT = Gamma(s) / r^s) after the substitution
t_j = x * t_i (phased) or t_i = (1-x) T, t_j = x T (unphased).  No 2F1 / 1F1 / U identity
is used anywhere, so an algebra error in approx.py is not shared.

The remaining 1-D integrands are sharply peaked (shapes up to ~1300), so `log_integral`
works on the log-density h(u) in an unconstrained coordinate (u = logit x or u = log t,
Jacobian included), locates the mode on a coarse grid and refines it, measures the
half-widths of the peak on both sides, and integrates with composite Gauss-Legendre on
panels that double in width away from the mode out to where the density has dropped by
exp(-DROP).  The whole thing is repeated with every panel halved; the disagreement is
returned as the oracle's own error estimate (callers discard a case whose oracle is not
good to ~1e-8).  All these densities are unimodal in u (h'(u)=0 reduces to a quadratic with
exactly one admissible root; see comments at each density).
"""

import numpy as np
from numpy.polynomial.legendre import leggauss

_GX, _GW = leggauss(24)
DROP = 90.0
_GEOM = 10.0 ** np.linspace(-7, 3.3, 413)  # distances from the mode probed for the widths


def softplus(u):
    return np.logaddexp(0.0, u)


def log_x(u):  # log sigmoid(u)
    return -softplus(-u)


def log_1mx(u):  # log (1 - sigmoid(u))
    return -softplus(u)


class OracleUnreliable(Exception):
    pass


def _find_mode(h, lo, hi):
    grid = np.linspace(lo, hi, 1601)
    v = h(grid)
    if not np.all(np.isfinite(v) | (v == -np.inf)) or np.any(np.isnan(v)):
        raise OracleUnreliable("non-finite log-density on grid")
    k = int(np.argmax(v))
    if k == 0 or k == grid.size - 1:
        raise OracleUnreliable("mode on the boundary of the search range")
    a, b = grid[k - 1], grid[k + 1]
    for _ in range(7):
        g = np.linspace(a, b, 41)
        v = h(g)
        k = int(np.argmax(v))
        a, b = g[max(k - 1, 0)], g[min(k + 1, 40)]
    m = 0.5 * (a + b)
    return m, float(h(np.array([m]))[0])


def _side(h, m, hm, sign):
    """returns (half-width where h drops by 1, distance where h drops by DROP)"""
    v = hm - h(m + sign * _GEOM)
    v = np.maximum.accumulate(np.where(np.isnan(v), np.inf, v))
    i1 = int(np.searchsorted(v, 1.0))
    i2 = int(np.searchsorted(v, DROP))
    if i1 >= _GEOM.size or i2 >= _GEOM.size:
        raise OracleUnreliable("tail too heavy")
    if i1 == 0:
        raise OracleUnreliable("peak too narrow")
    return _GEOM[i1], _GEOM[i2]


def _panels(w, cut):
    edges = [0.0, w]
    while edges[-1] < cut:
        edges.append(edges[-1] * 2.0)
    return np.array(edges)


def _gl(h, hm, edges):
    a = edges[:-1, None]
    b = edges[1:, None]
    x = 0.5 * (a + b) + 0.5 * (b - a) * _GX[None, :]
    w = 0.5 * (b - a) * _GW[None, :]
    return float(np.sum(w * np.exp(h(x.ravel()).reshape(x.shape) - hm)))


def log_integral(h, lo=-250.0, hi=250.0):
    """(log of the integral of exp(h(u)) du over the real line, relative error estimate).
    h must be vectorised and unimodal."""
    with np.errstate(over="ignore", under="ignore", invalid="ignore"):
        return _log_integral(h, lo, hi)


def _log_integral(h, lo, hi):
    m, hm = _find_mode(h, lo, hi)
    wl, cl = _side(h, m, hm, -1.0)
    wr, cr = _side(h, m, hm, +1.0)
    el = m - _panels(wl, cl)[::-1]
    er = m + _panels(wr, cr)
    edges = np.concatenate([el, er[1:]])
    coarse = _gl(h, hm, edges)
    fine_edges = np.sort(np.concatenate([edges, 0.5 * (edges[1:] + edges[:-1])]))
    fine = _gl(h, hm, fine_edges)
    if not (fine > 0 and np.isfinite(fine)):
        raise OracleUnreliable("non-positive integral")
    return hm + np.log(fine), abs(coarse - fine) / fine


class Tilted:
    """ratio-of-integrals helper: expectations under exp(h0) of positive weights"""

    def __init__(self, h0, lo=-250.0, hi=250.0):
        self.h0 = h0
        self.lo, self.hi = lo, hi
        self.L0, self.err = log_integral(h0, lo, hi)

    def expect(self, logw):
        L, e = log_integral(lambda u: self.h0(u) + logw(u), self.lo, self.hi)
        self.err = max(self.err, e)
        return float(np.exp(L - self.L0))


# --------------------------------------------------------------------------------------
# two free ends, phased: 0 < t_j < t_i
#   p(t_i,t_j) ~ (t_i-t_j)^y e^{-mu(t_i-t_j)} t_i^{a_i-1} e^{-b_i t_i} t_j^{a_j-1} e^{-b_j t_j}
#   t_j = x t_i:  t_i^{s-1} x^{a_j-1} (1-x)^y exp(-t_i r(x)),  s = a_i+a_j+y,
#   r(x) = (mu+b_i) + x (b_j-mu)  in [A, B] = [mu+b_i, b_i+b_j]  (positive)
#   => marginal of x ~ x^{a_j-1} (1-x)^y r(x)^{-s};  E[t_i^k | x] = s(s+1).. / r^k
#   in u = logit x: h = a_j u + (a_i-1) softplus(u) - s log(A + B e^u) + const: h' = 0 is a
#   quadratic in e^u with sign change + -> -, so exactly one mode.
# --------------------------------------------------------------------------------------


def _logr(u, A, B):
    return np.logaddexp(np.log(A), np.log(B) + u) - softplus(u)


def phased_pair(a_i, b_i, a_j, b_j, y, mu):
    s = a_i + a_j + y
    A, B = mu + b_i, b_i + b_j

    def h0(u):
        return a_j * log_x(u) + (y + 1.0) * log_1mx(u) - s * _logr(u, A, B)

    T = Tilted(h0)
    mn_i = s * T.expect(lambda u: -_logr(u, A, B))
    mn_j = s * T.expect(lambda u: log_x(u) - _logr(u, A, B))
    # mutation uniformly placed on (t_j, t_i): E t_m = (E t_i + E t_j) / 2, integrated directly
    mn_m = 0.5 * s * T.expect(lambda u: np.logaddexp(0.0, log_x(u)) - _logr(u, A, B))
    return dict(mn_i=mn_i, mn_j=mn_j, mn_m=mn_m, err=T.err)


# --------------------------------------------------------------------------------------
# two free ends, unphased singleton block: t_i, t_j > 0 independent supports
#   p ~ (t_i+t_j)^y e^{-mu(t_i+t_j)} t_i^{a_i-1} e^{-b_i t_i} t_j^{a_j-1} e^{-b_j t_j}
#   t_i = (1-x) T, t_j = x T (Jacobian T): T^{s-1} (1-x)^{a_i-1} x^{a_j-1} exp(-T r(x)),
#   s = a_i+a_j+y, r(x) = (mu+b_i)(1-x) + (mu+b_j) x
#   mutation: under i with prob t_i/(t_i+t_j) = 1-x, then uniform on (0,t_i):
#   E t_m = E[T ((1-x)^2 + x^2)] / 2
# --------------------------------------------------------------------------------------


def unphased_pair(a_i, b_i, a_j, b_j, y, mu):
    s = a_i + a_j + y
    A, B = mu + b_i, mu + b_j

    def h0(u):
        return a_j * log_x(u) + a_i * log_1mx(u) - s * _logr(u, A, B)

    T = Tilted(h0)
    mn_i = s * T.expect(lambda u: log_1mx(u) - _logr(u, A, B))
    mn_j = s * T.expect(lambda u: log_x(u) - _logr(u, A, B))
    pr_m = T.expect(log_1mx)
    mn_m = 0.5 * s * T.expect(
        lambda u: np.logaddexp(2 * log_1mx(u), 2 * log_x(u)) - _logr(u, A, B)
    )
    return dict(mn_i=mn_i, mn_j=mn_j, pr_m=pr_m, mn_m=mn_m, err=T.err)


# --------------------------------------------------------------------------------------
# fixed child at t_j > 0, free parent: d = t_i - t_j > 0, u = log d
#   p(d) ~ d^y e^{-(mu+b_i) d} (t_j+d)^{a_i-1}
# --------------------------------------------------------------------------------------


def rootward(t_j, a_i, b_i, y, mu):
    r = mu + b_i

    def h0(u):
        return (y + 1.0) * u - r * np.exp(u) + (a_i - 1.0) * np.logaddexp(np.log(t_j), u)

    lo = min(np.log(t_j), -np.log(r)) - 120.0
    hi = max(np.log(t_j), -np.log(r)) + 60.0
    T = Tilted(h0, lo, hi)
    gap = T.expect(lambda u: u)
    return dict(mn_i=t_j + gap, gap=gap, mn_m=t_j + 0.5 * gap, err=T.err)


# --------------------------------------------------------------------------------------
# fixed parent at t_i, free child: x = t_j / t_i in (0,1)
#   p(x) ~ (1-x)^y x^{a_j-1} exp(t_i (mu-b_j) x)
#   h'(u)=0 <=> a_j(1-x) - (y+1)x + c x(1-x) = 0: one root in (0,1)
# --------------------------------------------------------------------------------------


def leafward(t_i, a_j, b_j, y, mu):
    c = t_i * (mu - b_j)

    def h0(u):
        return a_j * log_x(u) + (y + 1.0) * log_1mx(u) + c * np.exp(log_x(u))

    T = Tilted(h0, -400.0, 250.0)
    ex = T.expect(log_x)
    return dict(mn_j=t_i * ex, mn_m=0.5 * t_i * (1.0 + ex), err=T.err)


# --------------------------------------------------------------------------------------
# unphased block, one parent fixed at t_i, other free: t_j = e^u > 0
#   p(t_j) ~ (t_i+t_j)^y e^{-(mu+b_j) t_j} t_j^{a_j-1}
#   mutation under i w.p. t_i/(t_i+t_j): E t_m = E[(t_i^2 + t_j^2) / (2 (t_i+t_j))]
# --------------------------------------------------------------------------------------


def sideways(t_i, a_j, b_j, y, mu):
    r = mu + b_j
    lt = np.log(t_i)

    def h0(u):
        return a_j * u + y * np.logaddexp(lt, u) - r * np.exp(u)

    lo = min(lt, -np.log(r)) - 200.0
    hi = max(lt, -np.log(r)) + 60.0
    T = Tilted(h0, lo, hi)
    mn_j = T.expect(lambda u: u)
    pr_m = T.expect(lambda u: lt - np.logaddexp(lt, u))
    mn_m = 0.5 * T.expect(lambda u: np.logaddexp(2 * lt, 2 * u) - np.logaddexp(lt, u))
    return dict(mn_j=mn_j, pr_m=pr_m, mn_m=mn_m, err=T.err)


# --------------------------------------------------------------------------------------
# closed forms (conjugate gamma; derived here, not copied)
#   child at time zero: p(t_i) ~ t_i^{a_i+y-1} e^{-(mu+b_i) t_i}  => Gamma(a_i+y, mu+b_i)
#   twin block:         p(t_i) ~ t_i^{a_i+y-1} e^{-(2mu+b_i) t_i} => Gamma(a_i+y, 2mu+b_i)
#   mutation below a Gamma(s,r) parent whose child is at 0: t_m | t_i ~ U(0,t_i):
#       E t_m = s/(2r), E t_m^2 = s(s+1)/(3 r^2)
#   both ends fixed: t_m ~ U(t_j,t_i); block: mixture with weight t_i/(t_i+t_j) of U(0,t_i), U(0,t_j)
# --------------------------------------------------------------------------------------


def gamma_closed(shape, rate):
    return shape / rate, shape / rate**2


def uniform_below_gamma(shape, rate):
    mn = shape / rate / 2.0
    sq = shape * (shape + 1.0) / (3.0 * rate**2)
    return mn, sq - mn**2


def edge_fixed(t_i, t_j):
    return 0.5 * (t_i + t_j), (t_i - t_j) ** 2 / 12.0


def block_fixed(t_i, t_j):
    p = t_i / (t_i + t_j)
    mn = (t_i**2 + t_j**2) / (2.0 * (t_i + t_j))
    sq = (t_i**3 + t_j**3) / (3.0 * (t_i + t_j))
    return p, mn, sq - mn**2
