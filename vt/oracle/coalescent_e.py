"""
Independent reference for the conditional-coalescent node-age prior (C14, used by C15/C16).

Model: Kingman coalescent on n lineages, time unit such that each PAIR of lineages
coalesces at rate 1 (so while m lineages remain the waiting time is Exp(C(m,2)); this is
the unit of prior.py: tau_expect(n, n) = 2(1 - 1/n) = E[T_MRCA]).

A fixed k-subset S of the n samples "is a node" iff S is monophyletic.  Jump chain on
(i, j) = (#lineages made only of members of S, #other lineages), started at (k, n-k):
with m = i + j lineages a uniformly chosen pair coalesces,
  both in S       C(i,2)/C(m,2)   -> (i-1, j)
  both outside    C(j,2)/C(m,2)   -> (i, j-1)
  mixed           i*j/C(m,2)      -> S is not monophyletic (killed) while i >= 2.
The node exists when (1, j) is reached; `a = 1 + j` lineages remain at that moment and,
waiting times being independent of the jump chain, the node's age is
T_n + T_{n-1} + ... + T_{a+1} with independent T_m ~ Exp(C(m,2)).

Nothing here is shared with the Wiuf-Donnelly style recursion over decreasing k that
prior.py uses (no logs, no recursion over k, exact rationals or 50-digit mpmath).

Two evaluations are provided:
  * moments_exact(n, k): the chain itself, dynamic programme in `fractions.Fraction`;
  * moments_mp(n, ks): the same law in closed form from path counting -- every surviving
    path to (1, a-1) contains the k-1 within-S events and the n-k-a+1 outside events, the
    last event is the final within-S one, so
        w(a) = C(n-a-1, k-2) * prod_{j=a}^{n-k} C(j,2) / prod_{m=a+1}^{n} C(m,2)
    and  w(a+1)/w(a) = (n-a-k+1)/(n-a-1) * (a+1)/(a-1),  a = 2 .. n-k+1  (a = 1 iff k = n).
    Evaluated in mpmath; self_test() cross-checks it against the Fraction chain.
"""

from fractions import Fraction
from functools import lru_cache

import mpmath


def _c2(m):
    return m * (m - 1) // 2


def remaining_lineage_law_exact(n, k):
    """{a: P(a lineages remain when the k-subset coalesces | subset monophyletic)} (Fractions)"""
    if not (2 <= k <= n):
        raise ValueError("need 2 <= k <= n")
    cur = {n - k: Fraction(1)}  # states (i, j) for the current i, keyed by j
    # layer i = k .. 2; within a layer j decreases
    hit = {}
    for i in range(k, 1, -1):
        nxt = {}
        # process j from high to low so that outside-coalescences feed lower j in the same layer
        layer = dict(cur)
        for j in range(n - k, -1, -1):
            p = layer.get(j)
            if not p:
                continue
            m = i + j
            tot = _c2(m)
            if j >= 2:
                layer[j - 1] = layer.get(j - 1, Fraction(0)) + p * Fraction(_c2(j), tot)
            # within-S coalescence
            nxt[j] = nxt.get(j, Fraction(0)) + p * Fraction(_c2(i), tot)
        cur = nxt
    for j, p in cur.items():  # now i == 1
        hit[1 + j] = p
    z = sum(hit.values())
    return {a: p / z for a, p in sorted(hit.items())}


@lru_cache(maxsize=None)
def _age_moments_exact(n):
    """M1[a], V[a] of T_n+...+T_{a+1} for a = 1..n (Fractions)"""
    m1 = [None] * (n + 1)
    v = [None] * (n + 1)
    s1 = Fraction(0)
    s2 = Fraction(0)
    m1[n] = s1
    v[n] = s2
    for m in range(n, 1, -1):
        r = Fraction(1, _c2(m))
        s1 += r
        s2 += r * r
        m1[m - 1] = s1
        v[m - 1] = s2
    return m1, v


@lru_cache(maxsize=200000)
def moments_exact(n, k):
    """(mean, variance) of the age of a node with k of n descendant samples, as Fractions."""
    law = remaining_lineage_law_exact(n, k)
    m1, v = _age_moments_exact(n)
    mean = sum(p * m1[a] for a, p in law.items())
    second = sum(p * (v[a] + m1[a] ** 2) for a, p in law.items())
    return mean, second - mean * mean


def moments_mp(n, ks, dps=50):
    """{k: (mean, var)} as mpf, closed-form law of `a`, `dps` significant digits."""
    out = {}
    with mpmath.workdps(dps):
        mpf = mpmath.mpf
        # age moments given a: M1[a] = sum_{m=a+1}^n 1/C(m,2), V[a] = sum 1/C(m,2)^2
        m1 = [mpf(0)] * (n + 2)
        v = [mpf(0)] * (n + 2)
        s1 = mpf(0)
        s2 = mpf(0)
        for m in range(n, 1, -1):
            r = mpf(2) / (m * (m - 1))
            s1 += r
            s2 += r * r
            m1[m - 1] = s1
            v[m - 1] = s2
        for k in ks:
            if not (2 <= k <= n):
                raise ValueError("need 2 <= k <= n")
            if k == n:
                out[k] = (m1[1], v[1])
                continue
            w = mpf(1)
            z = mpf(0)
            e1 = mpf(0)
            e2 = mpf(0)
            for a in range(2, n - k + 2):
                z += w
                e1 += w * m1[a]
                e2 += w * (v[a] + m1[a] ** 2)
                if a < n - k + 1:
                    w = w * (n - a - k + 1) * (a + 1) / ((n - a - 1) * (a - 1))
            mean = e1 / z
            out[k] = (mean, e2 / z - mean * mean)
    return out


def self_test(nmax=14):
    """closed form (mpmath) == Markov chain (Fractions) for all n <= nmax; raises on mismatch"""
    with mpmath.workdps(50):
        for n in range(2, nmax + 1):
            mp = moments_mp(n, range(2, n + 1))
            for k in range(2, n + 1):
                me, ve = moments_exact(n, k)
                for got, ref in ((mp[k][0], me), (mp[k][1], ve)):
                    ref = mpmath.mpf(ref.numerator) / ref.denominator
                    if abs(got - ref) > mpmath.mpf(10) ** (-40) * abs(ref):
                        raise AssertionError(f"oracle self-test failed at n={n} k={k}: {got} vs {ref}")
    return True


# ---------------------------------------------------------------------------
# moment matching (the documented transforms), high precision
# ---------------------------------------------------------------------------


def lognorm_moments_from_params(alpha, beta):
    """mean, var of a lognormal whose log has mean alpha, VARIANCE beta (mpf)"""
    alpha = mpmath.mpf(alpha)
    beta = mpmath.mpf(beta)
    mean = mpmath.exp(alpha + beta / 2)
    return mean, mpmath.expm1(beta) * mean * mean


def gamma_moments_from_params(alpha, beta):
    alpha = mpmath.mpf(alpha)
    beta = mpmath.mpf(beta)
    return alpha / beta, alpha / (beta * beta)


def params_from_moments(distr, mean, var):
    """(alpha, beta) as mpf"""
    mean = mpmath.mpf(mean)
    var = mpmath.mpf(var)
    if distr == "lognorm":
        beta = mpmath.log1p(var / (mean * mean))
        return mpmath.log(mean) - beta / 2, beta
    if distr == "gamma":
        return mean * mean / var, mean / var
    raise ValueError(distr)


# ---------------------------------------------------------------------------
# per-tree spans (C15) and the span-weighted mixture
# ---------------------------------------------------------------------------


def brute_force_spans(ts):
    """{u: {(T, k): total span}} for non-sample nodes, by direct iteration over local trees.
    T = number of sample nodes that have a parent in the tree, k = samples below u.
    Also returns {u: total span over which u is in a tree}, and the per-tree T list."""
    import tskit

    is_sample = set(int(s) for s in ts.samples())
    spans = {}
    total = {}
    per_tree_T = []
    for tree in ts.trees():
        T = sum(1 for s in is_sample if tree.parent(s) != tskit.NULL)
        per_tree_T.append(T)
        span = Fraction(tree.interval.right) - Fraction(tree.interval.left)
        for u in tree.nodes():
            if u in is_sample:
                continue
            if tree.num_children(u) == 0:
                continue  # cannot happen in a simplified input
            k = tree.num_samples(u)
            d = spans.setdefault(u, {})
            d[(T, k)] = d.get((T, k), Fraction(0)) + span
            total[u] = total.get(u, Fraction(0)) + span
    return spans, total, per_tree_T


def mixture_moments(span_dict):
    """exact span-weighted mixture mean/var from {(T,k): span} (Fractions)"""
    wsum = sum(span_dict.values())
    mean = Fraction(0)
    second = Fraction(0)
    for (T, k), w in span_dict.items():
        m, v = moments_exact(T, k)
        mean += w * m
        second += w * (v + m * m)
    mean /= wsum
    return mean, second / wsum - mean * mean


def frac_to_mpf(x):
    return mpmath.mpf(x.numerator) / mpmath.mpf(x.denominator)
