"""
Exact reference for piecewise-constant population-size time transforms (C17, used by C16).

History: diploid sizes N_0..N_{E-1} (floats, taken exactly as rationals), epoch starts
b_0 = 0 < b_1 < ... < b_{E-1} (generations).  One generation in epoch j is 1/(2 N_j)
coalescent units, so
    f(t)  = integral_0^t du / (2 N(u))                (generations -> coalescent units)
    g     = f^{-1}                                    (coalescent units -> generations)
Both are evaluated in `fractions.Fraction` epoch by epoch as sums of POSITIVE terms (no
"slope * t + offset" form, so nothing is shared with PopulationSizeHistory._change_time_measure).

Also: first-order rounding-error bounds for the float formula `t / M_idx + step[idx]`
(partial-sum magnitudes), and the moments of g(T), T ~ Gamma(shape, rate), in mpmath
(closed form by incomplete gamma functions, and by numerical quadrature split at the breaks).
"""

from fractions import Fraction

import mpmath

EPS = 2.0 ** -52


class ExactHistory:
    def __init__(self, population_size, time_breaks=()):
        self.N = [Fraction(float(x)) for x in population_size]
        self.M = [2 * x for x in self.N]  # generations per coalescent unit
        self.b = [Fraction(0)] + [Fraction(float(x)) for x in time_breaks]
        if len(self.b) != len(self.N):
            raise ValueError("need one more size than breaks")
        if any(x <= 0 for x in self.N) or any(y <= x for x, y in zip(self.b, self.b[1:])):
            raise ValueError("invalid history")
        self.E = len(self.N)
        cb = [Fraction(0)]
        for j in range(1, self.E):
            cb.append(cb[-1] + (self.b[j] - self.b[j - 1]) / self.M[j - 1])
        self.cb = cb  # exact coalescent-scale epoch starts

    # -- exact maps ------------------------------------------------------
    def epoch_of_time(self, t):
        j = 0
        while j + 1 < self.E and t >= self.b[j + 1]:
            j += 1
        return j

    def epoch_of_coal(self, tau):
        j = 0
        while j + 1 < self.E and tau >= self.cb[j + 1]:
            j += 1
        return j

    def to_coal(self, t):
        t = Fraction(t)
        j = self.epoch_of_time(t)
        return self.cb[j] + (t - self.b[j]) / self.M[j]

    def to_nat(self, tau):
        tau = Fraction(tau)
        j = self.epoch_of_coal(tau)
        return self.b[j] + (tau - self.cb[j]) * self.M[j]

    # -- magnitudes of the partial sums of the float formulas -----------------
    def coal_partial_sum(self, t):
        """sum of |terms| of  t/M_idx + sum_{j<=idx} b_j (1/M_{j-1} - 1/M_j)"""
        t = Fraction(t)
        j = self.epoch_of_time(t)
        s = t / self.M[j]
        for i in range(1, j + 1):
            s += self.b[i] * (1 / self.M[i - 1] + 1 / self.M[i])
        return s

    def coal_bound(self, t, K):
        return K * EPS * float(self.coal_partial_sum(t))

    def nat_bound(self, tau, K):
        """bound on |code_to_natural(tau) - g(tau)|: rounding of tau*M_idx + sum cb_j (M_{j-1} - M_j),
        plus the error of the float coalescent breaks (each within coal_bound of exact) times the slope
        change, which also covers tau being assigned to the neighbouring epoch."""
        tau = Fraction(tau)
        j = self.epoch_of_coal(tau)
        s = tau * self.M[j]
        brk = Fraction(0)
        for i in range(1, min(j + 1, self.E - 1) + 1):
            w = self.M[i - 1] + self.M[i]
            if i <= j:
                s += self.cb[i] * w
            brk += Fraction(self.coal_bound(self.b[i], K)) * w
        return K * EPS * float(s) + float(brk)

    # -- gamma moments of g(T) ------------------------------------------------
    def _pieces(self):
        """[(lo, hi, c, M)] with g(tau) = c + M tau on [lo, hi); hi = None for the last"""
        out = []
        for j in range(self.E):
            hi = self.cb[j + 1] if j + 1 < self.E else None
            out.append((self.cb[j], hi, self.b[j] - self.M[j] * self.cb[j], self.M[j]))
        return out

    def gamma_mapped_moments_closed(self, shape, rate, dps=40):
        """(mean, var) of g(T), T ~ Gamma(shape, rate): sums of partial gamma moments"""
        with mpmath.workdps(dps):
            s = mpmath.mpf(shape)
            r = mpmath.mpf(rate)
            m1 = mpmath.mpf(0)
            m2 = mpmath.mpf(0)
            for lo, hi, c, M in self._pieces():
                lo = _mpf(lo) * r
                hi = mpmath.inf if hi is None else _mpf(hi) * r
                c = _mpf(c)
                M = _mpf(M)
                # partial moments  int tau^q pdf = rf(s, q) / r^q * [P(s+q, r hi) - P(s+q, r lo)]
                p0 = mpmath.gammainc(s, lo, hi, regularized=True)
                p1 = mpmath.gammainc(s + 1, lo, hi, regularized=True) * s / r
                p2 = mpmath.gammainc(s + 2, lo, hi, regularized=True) * s * (s + 1) / (r * r)
                m1 += c * p0 + M * p1
                m2 += c * c * p0 + 2 * c * M * p1 + M * M * p2
            return m1, m2 - m1 * m1

    def gamma_mapped_moments_quad(self, shape, rate, dps=25):
        """same by numerical quadrature of g(tau)^p * pdf(tau), split at breaks and around the mode"""
        with mpmath.workdps(dps):
            s = mpmath.mpf(shape)
            r = mpmath.mpf(rate)
            lognorm = s * mpmath.log(r) - mpmath.loggamma(s)

            def pdf(x):
                if x <= 0:
                    return mpmath.mpf(0)
                return mpmath.exp(lognorm + (s - 1) * mpmath.log(x) - r * x)

            mean_c = s / r
            sd_c = mpmath.sqrt(s) / r
            marks = [mean_c + z * sd_c for z in (-8, -4, -2, -1, 0, 1, 2, 4, 8, 16, 40)]
            marks = [m for m in marks if m > 0]
            far = mean_c + 200 * sd_c + 200 / r
            m1 = mpmath.mpf(0)
            m2 = mpmath.mpf(0)
            for lo, hi, c, M in self._pieces():
                lo = _mpf(lo)
                hi = far if hi is None else _mpf(hi)
                if hi is not None and lo >= far:
                    continue
                hi = min(hi, far)
                pts = [lo] + sorted(m for m in marks if lo < m < hi) + [hi]
                c = _mpf(c)
                M = _mpf(M)
                m1 += mpmath.quad(lambda x: (c + M * x) * pdf(x), pts)
                m2 += mpmath.quad(lambda x: (c + M * x) ** 2 * pdf(x), pts)
            return m1, m2 - m1 * m1


def _mpf(x):
    if isinstance(x, Fraction):
        return mpmath.mpf(x.numerator) / mpmath.mpf(x.denominator)
    return mpmath.mpf(x)


def gamma_term_magnitudes(hist, shape, rate, dps=30):
    """Sizes of the partial sums that the float formula
        mean = sum_j (c_j P0_j + M_j P1_j),  var = sum_j (c_j^2 P0_j + 2 c_j M_j P1_j + M_j^2 P2_j) - mean^2,
        c_j = b_j - M_j cb_j  (itself a difference of the two positive numbers b_j and M_j cb_j),
        Pq_j = E[T^q] * (P(s+q, r hi_j) - P(s+q, r lo_j))   (a difference of two cdf values <= 1)
    has to add up: (S_mean, S_var), with |c_j| replaced by A_j = b_j + M_j cb_j and each cdf difference by
    the SUM of the two cdf values.  eps * S / value is the first-order size of the rounding error of that
    formula (a model, used only to CLASSIFY a mismatch as cancellation, never to accept it)."""
    with mpmath.workdps(dps):
        s = mpmath.mpf(shape)
        r = mpmath.mpf(rate)
        sm = mpmath.mpf(0)
        sv = mpmath.mpf(0)
        for j, (lo, hi, c, M) in enumerate(hist._pieces()):
            A = _mpf(hist.b[j] + hist.M[j] * hist.cb[j])
            lo = _mpf(lo) * r
            hi = mpmath.inf if hi is None else _mpf(hi) * r
            M = _mpf(M)

            def q(k):
                return (mpmath.gammainc(s + k, 0, lo, regularized=True)
                        + mpmath.gammainc(s + k, 0, hi, regularized=True))

            q0 = q(0)
            q1 = q(1) * s / r
            q2 = q(2) * s * (s + 1) / (r * r)
            sm += A * q0 + M * q1
            sv += A * A * q0 + 2 * A * M * q1 + M * M * q2
        return sm, sv + sm * sm


def gamma_overflow_risk(shape, rate):
    """True when one of the intermediate factors of the float formula (rate**(shape+2), gamma(shape+2),
    exp(shape*log(rate) - loggamma(shape))) leaves the range where doubles keep full precision"""
    import math

    lim = 690.0  # exp(709) overflows, exp(-708) is subnormal
    lr = abs(math.log(rate))
    return bool((shape + 2) * lr > lim or math.lgamma(shape + 2) > lim
                or abs(shape * math.log(rate) - math.lgamma(shape)) > lim)


def round_trip_bound(hist, t, K):
    """bound on |to_natural(to_coalescent(t)) - t| for the float formulas, given that each map is
    within its rounding bound (coal_bound / nat_bound) of the exact one"""
    t = Fraction(t)
    f = hist.to_coal(t)
    bc = Fraction(hist.coal_bound(t, K))
    slack = max(hist.to_nat(f + bc) - t, t - hist.to_nat(max(Fraction(0), f - bc)))
    return hist.nat_bound(f, K) + float(slack) + hist.nat_bound(f + bc, K)
