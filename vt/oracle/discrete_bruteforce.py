"""
Brute-force reference for the discretised dating model on ONE tree (C10, C38).

Model (statement of C10): every non-sample node u takes a grid index t_u in {0..G-1};

    weight(t) =  prod_u prior[u][t_u]
               x prod_{edges (p,c)} Poisson(m_e ; (T[t_p] - T_c + eps) * mu * span_e) * [T[t_p] >= T_c]

with T the time grid, T_c = T[t_c] for a non-sample child and the sample's time (0) for a
sample child.  Z = sum_t weight(t); the marginal posterior of u is sum_{t: t_u = i} weight / Z.

All G^k assignments are enumerated (as one dense k-dimensional array).  Nothing here imports
tsdate: the Poisson log-pmf m log(lam) - lam - lgamma(m+1) is written out below, the tree is
given as plain python data extracted with tskit.
"""

import math

import numpy as np


def poisson_logpmf(m, lam):
    """log P(X = m), X ~ Poisson(lam); lam array >= 0, m integer >= 0 (own formula, not scipy)."""
    lam = np.asarray(lam, dtype=np.float64)
    m = int(m)
    if m == 0:
        return -lam
    with np.errstate(divide="ignore", invalid="ignore"):
        out = m * np.log(lam) - lam - math.lgamma(m + 1)
    return np.where(lam == 0, -np.inf, out)


class TreeModel:
    """Plain-data description of a single-tree dating problem."""

    def __init__(self, internal, children, edge_muts, edge_span, sample_time):
        self.internal = list(internal)  # non-sample node ids that appear in the tree
        self.children = {u: list(cs) for u, cs in children.items()}  # internal node -> children
        self.edge_muts = dict(edge_muts)  # (parent, child) -> mutation count
        self.edge_span = dict(edge_span)  # (parent, child) -> span
        self.sample_time = dict(sample_time)  # sample leaf -> time
        self.parent = {c: p for p, cs in self.children.items() for c in cs}
        roots = [u for u in self.internal if u not in self.parent]
        assert len(roots) == 1, "single tree with one root expected"
        self.root = roots[0]

    def subtree(self, top):
        """The model restricted to `top` and everything below it."""
        keep, stack = [], [top]
        while stack:
            u = stack.pop()
            if u in self.children:
                keep.append(u)
                stack.extend(self.children[u])
        ch = {u: self.children[u] for u in keep}
        em = {(p, c): self.edge_muts[p, c] for p in keep for c in ch[p]}
        es = {(p, c): self.edge_span[p, c] for p in keep for c in ch[p]}
        st = {c: self.sample_time[c] for p in keep for c in ch[p] if c not in self.children}
        return TreeModel(keep, ch, em, es, st)


def model_from_ts(ts):
    """Extract the single tree of `ts` (trusted: tskit tree traversal + mutation->node map)."""
    assert ts.num_trees == 1
    tree = ts.first()
    assert tree.num_roots == 1
    children, edge_muts, edge_span, sample_time, internal = {}, {}, {}, {}, []
    muts_above = np.bincount(ts.mutations_node, minlength=ts.num_nodes) if ts.num_mutations else np.zeros(ts.num_nodes, int)
    for u in tree.nodes():
        cs = list(tree.children(u))
        if cs:
            assert not tree.is_sample(u)
            internal.append(u)
            children[u] = cs
            for c in cs:
                edge_muts[u, c] = int(muts_above[c])
                edge_span[u, c] = float(tree.span)
        else:
            assert tree.is_sample(u)
            sample_time[u] = float(ts.nodes_time[u])
    # mutations above the root are on no edge: they do not enter the model
    return TreeModel(internal, children, edge_muts, edge_span, sample_time)


def enumerate_model(model, timepoints, prior_rows, eps, mu):
    """
    Full enumeration, carried out on log weights (shifted by their maximum before
    exponentiating, so nothing under/overflows whatever the scale of the factors).
    prior_rows: dict node -> length-G array of non-negative weights (linear space, used
    exactly as given).  Returns (logZ, {node: posterior marginal (sums to 1)}).
    logZ = -inf (and NaN marginals) when no assignment has positive weight.
    """
    T = np.asarray(timepoints, dtype=np.float64)
    G = len(T)
    nodes = list(model.internal)
    k = len(nodes)
    axis = {u: a for a, u in enumerate(nodes)}
    if G ** k > 3_000_000:
        raise ValueError("enumeration too large")

    def along(vec, a):
        shape = [1] * k
        shape[a] = G
        return np.asarray(vec, dtype=np.float64).reshape(shape)

    L = np.zeros((G,) * k, dtype=np.float64)
    with np.errstate(divide="ignore"):
        for u in nodes:
            row = np.asarray(prior_rows[u], dtype=np.float64)
            assert row.shape == (G,) and np.all(row >= 0)
            L = L + along(np.log(row), axis[u])
    for p in nodes:
        for c in model.children[p]:
            m = model.edge_muts[p, c]
            span = model.edge_span[p, c]
            if c in axis:
                dt = T[:, None] - T[None, :]  # [t_p, t_c]
                ok = dt >= 0
                lam = (np.where(ok, dt, 0.0) + eps) * mu * span
                M = np.where(ok, poisson_logpmf(m, lam), -np.inf)
                shape = [1] * k
                shape[axis[p]] = G
                shape[axis[c]] = G
                Mb = M.reshape(shape) if axis[p] < axis[c] else M.T.reshape(shape)
                L = L + Mb
            else:
                dt = T - model.sample_time[c]
                ok = dt >= 0
                lam = (np.where(ok, dt, 0.0) + eps) * mu * span
                L = L + along(np.where(ok, poisson_logpmf(m, lam), -np.inf), axis[p])
    mx = float(L.max())
    if mx == -np.inf:
        return -np.inf, {u: np.full(G, np.nan) for u in nodes}
    W = np.exp(L - mx)
    tot = float(W.sum())
    post = {}
    for u in nodes:
        other = tuple(a for a in range(k) if a != axis[u])
        post[u] = (W.sum(axis=other) if other else W.copy()) / tot
    return mx + math.log(tot), post


def enumerate_ignoring_messages_from(model, x, timepoints, prior_rows, eps, mu):
    """
    Exact posterior when the messages that node `x` sends DOWN to its children are dropped
    from an otherwise exact two-pass (inside-outside) computation on the tree:
      * every non-sample child c of x becomes the top of an independent model (c's prior row
        as top factor, its subtree below): nodes in c's subtree get their marginal there;
      * all other nodes (x, its ancestors, the other branches) still receive every upward
        message and all the downward messages they are entitled to: their marginal is the
        one of the full model.
    With x = the root this is the meaning of ignore_oldest_root=True on a single tree (C38).
    Returns {node: posterior marginal}.
    """
    _, out = enumerate_model(model, timepoints, prior_rows, eps, mu)
    out = dict(out)
    for c in model.children.get(x, []):
        if c in model.children:
            sub = model.subtree(c)
            _, post_sub = enumerate_model(sub, timepoints, prior_rows, eps, mu)
            out.update(post_sub)
    return out


