"""Reference computations for C25 (no tsdate import).

pl_map            : continuous piecewise-linear interpolation through (original_breaks,
                    rescaled_breaks), constant beyond the last break.
brute_area        : per inter-node-time interval, total mutation rate (mutations / edge length)
                    and total span of the positive-length edges that cover the interval, by
                    testing every edge against every interval.
"""

import bisect
import math

import numpy as np


def pl_map(x, ob, rb):
    ob = [float(v) for v in ob]
    rb = [float(v) for v in rb]
    out = np.empty(len(x), dtype=float)
    for k, v in enumerate(x):
        v = float(v)
        if v >= ob[-1]:
            out[k] = rb[-1]
            continue
        i = bisect.bisect_right(ob, v) - 1
        if i < 0:
            out[k] = math.nan
            continue
        slope = (rb[i + 1] - rb[i]) / (ob[i + 1] - ob[i])
        out[k] = rb[i] + slope * (v - ob[i])
    return out


def brute_area(nodes_time, likelihoods, edges_parent, edges_child):
    """-> (counts, offset, duration, nodes_index, scale) ; scale = sum of |contributions| per
    column, for tolerances"""
    t = np.asarray(nodes_time, dtype=float)
    breaks = sorted(set(float(v) for v in t))
    index = {v: i for i, v in enumerate(breaks)}
    nodes_index = np.array([index[float(v)] for v in t], dtype=np.int64)
    K = len(breaks) - 1
    counts = [[] for _ in range(K)]
    offset = [[] for _ in range(K)]
    tot_c = tot_o = 0.0
    for e in range(len(edges_parent)):
        tp, tc = float(t[edges_parent[e]]), float(t[edges_child[e]])
        if not tp > tc:
            continue
        rate = float(likelihoods[e][0]) / (tp - tc)
        tot_c += abs(rate)
        tot_o += abs(float(likelihoods[e][1]))
        for k in range(K):
            lo, hi = breaks[k], breaks[k + 1]
            if tc <= lo and hi <= tp:  # the interval lies inside the edge
                counts[k].append(rate)
                offset[k].append(float(likelihoods[e][1]))
    counts = np.array([math.fsum(c) for c in counts], dtype=float).reshape(K)
    offset = np.array([math.fsum(c) for c in offset], dtype=float).reshape(K)
    duration = np.diff(np.array(breaks))
    return counts, offset, duration, nodes_index, (tot_c, tot_o)
