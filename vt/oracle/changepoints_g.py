"""Reference definitions for C26 (changepoint helpers). No tsdate import.

fixed helper : exact-rational statement "interior boundary k is the last index at which the
               cumulative mass fraction is at most k/epochs" with acceptance of either side of
               an exact (or 1e-12-relative, for non-integer counts) tie.
poisson helper: brute force over all 2^(n-1) segmentations of penalised Poisson deviance
               sum_seg -2*y*(log(y/n) - 1)  +  penalty * (#segments - 1),   0*log 0 := 0,
               restricted to segmentations whose segments all have n >= min_offset and
               y >= min_counts.  (The code's recursion F[0] = -penalty, F[j] = min_i F[i] +
               f(i,j) + penalty counts one penalty per changepoint; a constant shift does not
               move the argmin.)
"""

import itertools
import math
from fractions import Fraction

import numpy as np


# ----------------------------------------------------------------------------- fixed


def fixed_acceptable(counts, epochs, k, tie_rel=0.0):
    """Set of acceptable values for interior boundary k (0 < k < epochs).

    Exact rational arithmetic on the float values of `counts`. The definition is
    max{i : Y_i <= thr}, thr = k/epochs * Y_n. An index whose cumulative mass sits exactly on
    the threshold may fall either side in floating point (all such indices carry the same
    float value, so they fall together): max{i : Y_i < thr} is accepted too. With tie_rel > 0
    (non-integer counts, where the code's running sum is itself rounded) every index between
    max{i : Y_i < thr(1-tie_rel)} and max{i : Y_i <= thr(1+tie_rel)} is accepted.
    """
    n = len(counts)
    Y = [Fraction(0)]
    for c in counts:
        Y.append(Y[-1] + Fraction(float(c)))
    thr = Fraction(k, epochs) * Y[-1]
    slack = thr * Fraction(tie_rel)
    hi = max(i for i in range(n + 1) if Y[i] <= thr + slack)
    lo = max(i for i in range(n + 1) if Y[i] < thr - slack)
    if slack == 0:
        return {lo, hi}
    return set(range(lo, hi + 1))


def fixed_exact(counts, epochs):
    """The un-tied definition: list of boundaries (ties resolved as 'at most')."""
    n = len(counts)
    Y = [Fraction(0)]
    for c in counts:
        Y.append(Y[-1] + Fraction(float(c)))
    tot = Y[-1]
    out = [0]
    for k in range(1, epochs):
        thr = Fraction(k, epochs) * tot
        out.append(max(i for i in range(n + 1) if Y[i] <= thr))
    out.append(n)
    return out


# --------------------------------------------------------------------------- poisson


def seg_cost(y, n):
    """Poisson deviance of one segment, 0*log 0 := 0"""
    if y == 0:
        return 0.0
    return -2.0 * y * (math.log(y / n) - 1.0)


def all_segmentations(n):
    """every strictly increasing (0, ..., n)"""
    inner = list(range(1, n))
    for r in range(len(inner) + 1):
        for comb in itertools.combinations(inner, r):
            yield (0,) + comb + (n,)


_SEG_CACHE = {}


def segmentations(n):
    if n not in _SEG_CACHE:
        _SEG_CACHE[n] = list(all_segmentations(n))
    return _SEG_CACHE[n]


def poisson_tables(counts, offset, min_counts, min_offset):
    """(cost[i][j], feasible[i][j]) for all 0 <= i < j <= n, from plain partial sums
    (math.fsum of the slice: independent of the code's running cumsum)"""
    n = len(counts)
    cost = {}
    feas = {}
    for i in range(n):
        for j in range(i + 1, n + 1):
            y = math.fsum(counts[i:j])
            m = math.fsum(offset[i:j])
            feas[i, j] = (m >= min_offset) and (y >= min_counts)
            cost[i, j] = seg_cost(y, m)
    return cost, feas


def poisson_objective(breaks, cost, feas, penalty):
    tot = 0.0
    for i, j in zip(breaks[:-1], breaks[1:]):
        if not feas[i, j]:
            return math.inf
        tot += cost[i, j]
    return tot + penalty * (len(breaks) - 2)


def poisson_brute(counts, offset, penalty, min_counts, min_offset):
    """-> (best objective or inf, best breaks or None, tables)"""
    n = len(counts)
    cost, feas = poisson_tables(counts, offset, min_counts, min_offset)
    best, arg = math.inf, None
    for seg in segmentations(n):
        v = poisson_objective(seg, cost, feas, penalty)
        if v < best:
            best, arg = v, seg
    return best, arg, (cost, feas)


def well_formed(breaks, n):
    b = [int(x) for x in breaks]
    return len(b) >= 2 and b[0] == 0 and b[-1] == n and all(x < y for x, y in zip(b[:-1], b[1:]))
