"""
Independent dense re-statement of the discrete *outside* recursion (C38).

Given the result of the inside pass (fit.inside rows: they do not depend on
ignore_oldest_root) this recomputes, in log space with dense G x G matrices and its own
Poisson formula, the outside values and the normalised posterior of every non-sample node
of a (multi-tree) tree sequence, leaving out every edge whose parent is `ignore_node`.
Nothing from tsdate is imported or called.

Recursion (read off BeliefPropagation.outside_pass; f_e = span_e / spans[child], with
spans[c] = total span of edges above c + span over which c is the single root):

    g_e[i]      = log sum_{j<=i} inside[c][j]^f_e  Pois_e(i, j)                (upward message)
    out[c][j]   = sum_{e=(p,c), p != ignore_node}
                      log sum_{i>=j} (out[p][i] inside[p][i] / g_e[i])^f_e  Pois_e(i, j)
    out[u]      = const for nodes that are never a child
    post[u]     ~ inside[u] * out[u],  normalised

    Pois_e(i, j) = Poisson(m_e ; (T_i - T_j + eps) mu span_e)

Scalar factors (the per-node denominators of the inside pass, the standardisation of the
outside pass) only rescale whole rows (also through the power f_e) and are dropped: only
normalised posteriors are returned.
"""

import math

import numpy as np
import tskit


def _logpois(m, lam):
    m = int(m)
    if m == 0:
        return -lam
    with np.errstate(divide="ignore", invalid="ignore"):
        out = m * np.log(lam) - lam - math.lgamma(m + 1)
    return np.where(lam == 0, -np.inf, out)


def _lse(a, axis):
    mx = np.max(a, axis=axis, keepdims=True)
    mx0 = np.where(np.isfinite(mx), mx, 0.0)
    with np.errstate(divide="ignore"):
        return (np.log(np.sum(np.exp(a - mx0), axis=axis, keepdims=True)) + mx0).squeeze(axis)


def node_spans(ts):
    spans = np.zeros(ts.num_nodes)
    np.add.at(spans, ts.edges_child, ts.edges_right - ts.edges_left)
    for tree in ts.trees():
        if tree.num_roots == 1:
            spans[tree.root] += tree.span
    return spans


def oldest_root(ts):
    """(node id, unique?) of the parent node with the greatest time"""
    parents = np.unique(ts.edges_parent)
    t = ts.nodes_time[parents]
    top = parents[t == t.max()]
    return int(top[0]), len(top) == 1


def descendants_of(ts, x):
    """all nodes reachable downwards from x through any edge"""
    kids = {}
    for p, c in zip(ts.edges_parent, ts.edges_child):
        kids.setdefault(int(p), set()).add(int(c))
    out, stack = set(), [x]
    while stack:
        u = stack.pop()
        for c in kids.get(u, ()):
            if c not in out:
                out.add(c)
                stack.append(c)
    return out


def reference_posteriors(ts, log_inside, timepoints, eps, mu, ignore_node=None):
    """
    log_inside: dict non-sample node -> length-G array of log inside values (-inf allowed).
    Returns {node: normalised posterior row}.
    """
    T = np.asarray(timepoints, dtype=np.float64)
    G = len(T)
    is_sample = (ts.nodes_flags & tskit.NODE_IS_SAMPLE).astype(bool)
    spans = node_spans(ts)
    mut_edge = np.zeros(ts.num_edges, dtype=int)
    for m in ts.mutations():
        if m.edge != tskit.NULL:
            mut_edge[m.edge] += 1
    dt = T[:, None] - T[None, :]  # [i (parent), j (child)]
    ok = dt >= 0
    dtc = np.where(ok, dt, 0.0) + eps
    edges_above = {}
    for e in range(ts.num_edges):
        c = int(ts.edges_child[e])
        if not is_sample[c]:
            edges_above.setdefault(c, []).append(e)
    out = {u: np.zeros(G) for u in log_inside}
    # parents strictly older than children: descending time is a valid order
    for c in sorted(edges_above, key=lambda u: -ts.nodes_time[u]):
        val = np.zeros(G)
        for e in edges_above[c]:
            p = int(ts.edges_parent[e])
            if ignore_node is not None and p == ignore_node:
                continue
            span = float(ts.edges_right[e] - ts.edges_left[e])
            f = span / spans[c]
            lp = np.where(ok, _logpois(mut_edge[e], dtc * mu * span), -np.inf)
            with np.errstate(invalid="ignore"):
                g = _lse(f * log_inside[c][None, :] + lp, axis=1)  # over j, per i
                t = out[p] + log_inside[p] - g
            t = np.where(np.isnan(t) | (g == -np.inf), -np.inf, t)
            with np.errstate(invalid="ignore"):
                msg = _lse(f * t[:, None] + lp, axis=0)  # over i, per j
            val = val + msg
        out[c] = val
    post = {}
    for u in log_inside:
        with np.errstate(invalid="ignore"):
            lpst = log_inside[u] + out[u]
        lpst = np.where(np.isnan(lpst), -np.inf, lpst)
        mx = lpst.max()
        w = np.exp(lpst - mx) if np.isfinite(mx) else np.full(G, np.nan)
        post[u] = w / w.sum()
    return post
