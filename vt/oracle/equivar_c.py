"""
Shared harness of C06 (time-unit equivariance) and C07 (genome-coordinate invariance).

A *configuration* is a dict of plain data describing one call of tsdate.date(). `run()`
performs the call after applying a time-unit factor `ct` (C06) and/or a coordinate factor
`cx` (C07) to exactly the quantities the property statements name, and returns the
observable outputs as flat float arrays. `compare()` relates two such outputs.

Nothing here re-implements or calls into the parts of tsdate that are judged: the oracle is
the metamorphic relation between two runs of the real code.
"""

import numpy as np
import tskit
from hypothesis import strategies as st

import tsdate

from vt.common import call, exc_key, node_metadata_mn_vr
from vt.gen import ts as G

METHODS = ["variational_gamma", "inside_outside", "maximization"]


# --------------------------------------------------------------------------
# configuration strategy (G-CFG restricted to what C06/C07 transform)
# --------------------------------------------------------------------------


@st.composite
def config(draw, method, allow_unphased):
    """One date() configuration. All time-like quantities are explicit so that they can be
    transformed (a default eps/min_branch_length would silently stay unscaled)."""
    cfg = dict(method=method)
    cfg["mu"] = draw(st.sampled_from([1e-4, 1e-3, 1e-2, 0.1, 1.0, 0.37, 2.5e-8]))
    cfg["mbl"] = draw(st.sampled_from([1e-8, 1e-8, 1e-5, 1e-2, 1.0, 3.3e-7]))
    if method == "variational_gamma":
        cfg["max_iterations"] = draw(st.sampled_from([1, 2, 5, 10]))
        cfg["rescaling_intervals"] = draw(st.sampled_from([0, 2, 5, 1000, 1000]))
        cfg["rescaling_iterations"] = draw(st.sampled_from([1, 5]))
        cfg["match_segregating_sites"] = draw(st.booleans())
        cfg["regularise_roots"] = draw(st.sampled_from([True, True, False]))
        cfg["max_shape"] = draw(st.sampled_from([None, None, None, 20.0]))
        cfg["singletons_phased"] = not (allow_unphased and draw(st.integers(0, 3)) == 0)
    else:
        cfg["eps"] = draw(st.sampled_from([1e-8, 1e-8, 1e-6, 1e-3, 0.5, 7e-7]))
        ne = draw(st.sampled_from([1.0, 10.0, 100.0, 1e4, 123.456, 0.5]))
        cfg["prior"] = draw(st.sampled_from(["Ne", "Ne", "history", "grid_int", "grid_arr"]))
        cfg["Ne"] = ne
        if cfg["prior"] == "history":
            n_ep = draw(st.integers(2, 3))
            cfg["Ne_hist"] = [ne * f for f in draw(st.lists(st.sampled_from([0.1, 0.5, 1.0, 2.0, 10.0]),
                                                            min_size=n_ep, max_size=n_ep))]
            incs = draw(st.lists(st.sampled_from([0.25, 1.0, 3.0]), min_size=n_ep - 1, max_size=n_ep - 1))
            cfg["breaks"] = list(np.cumsum(incs) * ne)
        if cfg["prior"] in ("grid_int", "grid_arr"):
            cfg["prior_distribution"] = draw(st.sampled_from(["lognorm", "gamma"]))
        if cfg["prior"] == "grid_int":
            cfg["timepoints"] = draw(st.sampled_from([2, 5, 10, 20]))
        if cfg["prior"] == "grid_arr":
            n_tp = draw(st.integers(2, 12))
            incs = draw(st.lists(st.sampled_from([0.05, 0.1, 0.3, 1.0, 2.5]), min_size=n_tp, max_size=n_tp))
            cfg["timepoints"] = [0.0] + list(np.cumsum(incs) * ne)
        cfg["probability_space"] = draw(st.sampled_from(["logarithmic", "logarithmic", "linear"]))
        if method == "inside_outside":
            cfg["outside_standardize"] = draw(st.sampled_from([True, True, False]))
            cfg["ignore_oldest_root"] = draw(st.sampled_from([False, False, True]))
    return cfg


_KS = list(range(1, 41))
_MILLI = list(range(1, 9001))


@st.composite
def factor(draw):
    """(c, is_power_of_two): half exact powers of two 2^k (1 <= |k| <= 40), half log-uniform
    reals in [1e-9, 1e9]. Sign and magnitude of the exponent are separate draws from explicit
    lists: Hypothesis' numeric strategies favour small and negative values."""
    sign = 1 if draw(st.booleans()) else -1
    if draw(st.booleans()):
        return float(2.0 ** (sign * draw(st.sampled_from(_KS)))), True
    c = float(10.0 ** (sign * draw(st.sampled_from(_MILLI)) / 1000.0))
    m, _ = np.frexp(c)
    return c, bool(m == 0.5)


@st.composite
def input_ts(draw, tier, method):
    """Inputs every method accepts: single-rooted, no unary nodes, >= 3 mutations; historical
    samples only for variational_gamma (the discrete methods reject them)."""
    contemporaneous = True
    if method == "variational_gamma":
        contemporaneous = draw(st.booleans())
    for attempt in range(3):  # the shared node-collapsing mutator occasionally deletes a root
        ts = draw(G.general_ts(tier=tier, contemporaneous=contemporaneous, single_root=True, min_muts=3,
                               allow_polytomy=attempt < 2))
        if G.single_rooted(ts):
            break
    diploid = False
    if method == "variational_gamma" and G.is_contemporaneous(ts) and ts.num_samples % 2 == 0 \
            and draw(st.booleans()):
        ts = G.add_individuals(ts, [2])
        diploid = True
    return ts, diploid


# --------------------------------------------------------------------------
# running one configuration under a change of units
# --------------------------------------------------------------------------


def transformed_ts(ts, ct=1.0, cx=1.0):
    """Input tree sequence under the change of units: sample (and, harmlessly, all other)
    node times are times => multiplied by ct; coordinates by cx. Returns None if a
    non-power-of-two cx merges distinct coordinates (domain restriction, counted)."""
    out = ts
    if ct != 1.0 and not G.is_contemporaneous(ts):
        out = G.scale_times(out, ct)
    if cx != 1.0:
        try:
            out = G.scale_coords(out, cx)
        except (tskit.LibraryError, ValueError):
            return None
        if out.num_trees != ts.num_trees or out.num_mutations != ts.num_mutations:
            return None
        if not np.array_equal(out.mutations_edge, ts.mutations_edge):
            return None
    return out


def build_kwargs(ts, cfg, ct=1.0, cx=1.0):
    """kwargs of tsdate.date for `cfg` with time unit *ct and coordinate unit *cx."""
    method = cfg["method"]
    kw = dict(method=method, mutation_rate=cfg["mu"] / ct / cx, min_branch_length=cfg["mbl"] * ct,
              return_fit=True)
    if method == "variational_gamma":
        for k in ("max_iterations", "rescaling_intervals", "rescaling_iterations", "match_segregating_sites",
                  "regularise_roots", "singletons_phased"):
            kw[k] = cfg[k]
        if cfg.get("max_shape") is not None:
            kw["max_shape"] = cfg["max_shape"]
        return kw
    kw["eps"] = cfg["eps"] * ct
    kw["probability_space"] = cfg["probability_space"]
    if method == "inside_outside":
        kw["outside_standardize"] = cfg["outside_standardize"]
        kw["ignore_oldest_root"] = cfg["ignore_oldest_root"]
    mode = cfg["prior"]
    if mode == "Ne":
        kw["population_size"] = cfg["Ne"] * ct
    elif mode == "history":
        kw["population_size"] = dict(population_size=[x * ct for x in cfg["Ne_hist"]],
                                     time_breaks=[x * ct for x in cfg["breaks"]])
    else:
        tp = cfg["timepoints"]
        if mode == "grid_arr":
            tp = np.array(tp, dtype=np.float64) * ct
        kw["priors"] = tsdate.build_prior_grid(ts, population_size=cfg["Ne"] * ct, timepoints=tp,
                                               prior_distribution=cfg["prior_distribution"])
    return kw


def _date(ts, cfg, ct, cx):
    kw = build_kwargs(ts, cfg, ct, cx)  # building the prior grid is part of the judged call
    return tsdate.date(ts, **kw)


def run(ts, cfg, ct=1.0, cx=1.0):
    """-> ("ok", outputs) | ("rejected"|"internal", exc) | ("domain", reason)"""
    ts2 = transformed_ts(ts, ct, cx)
    if ts2 is None:
        return "domain", "coordinate_rounding"
    status, res = call(_date, ts2, cfg, ct, cx)
    if status != "ok":
        return status, res
    dts, fit = res
    return "ok", outputs(dts, fit, cfg["method"])


def _per_site_sorted(ts, values):
    """values (per output mutation row) -> flat array, rows of a site sorted (multiset per site)"""
    values = np.asarray(values, dtype=float)
    site = ts.mutations_site
    order = np.lexsort((values, site))
    return values[order]


def outputs(dts, fit, method):
    """Observable results named by the statements, as flat float arrays.
    *_time / *_mn are times (scale with c), *_vr variances (c^2), *_node dimensionless."""
    out = {}
    out["nodes_time"] = dts.nodes_time.copy()
    out["mutations_time"] = _per_site_sorted(dts, dts.mutations_time)
    mn, vr = node_metadata_mn_vr(dts)
    out["node_md_mn"] = mn
    out["node_md_vr"] = vr
    mmn = np.full(dts.num_mutations, np.nan)
    mvr = np.full(dts.num_mutations, np.nan)
    for m in dts.mutations():
        md = m.metadata
        if isinstance(md, dict):
            mmn[m.id] = md.get("mn", np.nan)
            mvr[m.id] = md.get("vr", np.nan)
    out["mut_md_mn"] = _per_site_sorted(dts, np.where(np.isnan(mmn), -1.0, mmn))
    out["mut_md_vr"] = _per_site_sorted(dts, np.where(np.isnan(mvr), -1.0, mvr))
    out["mutations_node"] = _per_site_sorted(dts, dts.mutations_node)
    if method == "variational_gamma":
        post = fit.node_posteriors()
        out["fit_node_mn"] = np.asarray(post["mean"], dtype=float)
        out["fit_node_vr"] = np.asarray(post["variance"], dtype=float)
        mpost = fit.mutation_posteriors()  # indexed by input mutation id
        out["fit_mut_mn"] = np.asarray(mpost["mean"], dtype=float)
        out["fit_mut_vr"] = np.asarray(mpost["variance"], dtype=float)
        sing = fit.mutation_blocks != tskit.NULL
        ph = fit.mutation_phase[sing]
        ph = ph[~np.isnan(ph)]
        out["_phase_margin"] = float(np.min(np.abs(ph - 0.5))) if ph.size else np.inf
    elif method == "maximization":
        out["fit_node_mn"] = np.asarray(fit.posterior_mean, dtype=float)
    return out


def power_of(field):
    if field.endswith("_vr"):
        return 2
    if field.endswith("_node"):
        return 0
    return 1


def compare(a, b, c, exact, tol):
    """Relation b == c^p * a field by field. Returns list of (field, index, a, b, relerr).
    NaN (absent metadata) must coincide; the -1 placeholder of absent mutation metadata is
    dimensionless."""
    bad = []
    for f in a:
        if f.startswith("_"):
            continue
        x, y = np.asarray(a[f], dtype=float), np.asarray(b[f], dtype=float)
        if x.shape != y.shape:
            bad.append((f, -1, float(x.size), float(y.size), np.inf))
            continue
        p = power_of(f)
        with np.errstate(over="ignore", invalid="ignore"):
            ex = x * (c ** p) if p else x
        if f.startswith("mut_md_"):
            ex = np.where(x == -1.0, -1.0, ex)
        if exact or p == 0:
            neq = ~((ex == y) | (np.isnan(ex) & np.isnan(y)))
        else:
            scale = np.maximum(np.abs(ex), np.abs(y))
            with np.errstate(invalid="ignore", divide="ignore"):
                rel = np.where(scale > 0, np.abs(ex - y) / scale, 0.0)
            rel = np.where(np.isnan(ex) & np.isnan(y), 0.0, rel)
            rel = np.where(np.isnan(rel), np.inf, rel)
            neq = rel > tol
        if np.any(neq):
            i = int(np.flatnonzero(neq)[0])
            denom = max(abs(ex[i]), abs(y[i]))
            r = abs(ex[i] - y[i]) / denom if denom > 0 and np.isfinite(denom) else np.inf
            bad.append((f, i, float(x[i]), float(y[i]), float(r)))
    return bad


def max_rel(a, b, c):
    """largest relative deviation from the relation over all fields (calibration label)"""
    worst = 0.0
    for f in a:
        if f.startswith("_"):
            continue
        x, y = np.asarray(a[f], dtype=float), np.asarray(b[f], dtype=float)
        if x.shape != y.shape:
            return np.inf
        p = power_of(f)
        ex = x * (c ** p) if p else x
        if f.startswith("mut_md_"):
            ex = np.where(x == -1.0, -1.0, ex)
        scale = np.maximum(np.abs(ex), np.abs(y))
        with np.errstate(invalid="ignore", divide="ignore"):
            rel = np.where(scale > 0, np.abs(ex - y) / scale, 0.0)
        rel = np.where(np.isnan(ex) & np.isnan(y), 0.0, rel)
        if rel.size:
            m = np.nanmax(rel) if not np.all(np.isnan(rel)) else np.inf
            if np.any(np.isnan(rel)):
                m = np.inf
            worst = max(worst, float(m))
    return worst


PERTURB = 2.0 ** -20
# A genuine equivariance defect (absolute threshold, unscaled constant) persists for every
# neighbouring factor and leaves the base run stable under factors next to 1. A rounding tie
# (base run sitting exactly on an argmax / searchsorted / unique / phase<0.5 discontinuity; seen
# in ~1 % of non-power-of-two cases with rescaling_intervals in {2,5}, mostly on built inputs
# with dyadic times and spans where the cumulative area hits a linspace value exactly) flips
# with probability ~1/2 under ANY generic relative perturbation of the inputs.
# The probe factors must have full-length mantissas: factors like 1+2^-20 multiply dyadic inputs
# exactly and leave such a tie intact (seen: seed 1, C07, 3 false alarms with the first version
# of this rule, replay base 6000 / generic factors 5625, 6000 or 6428.57), and the roundings
# under neighbouring factors c(1+j 2^-20) are correlated, so the confirmation stage alone is
# weak evidence; it is the tie test that keeps ties out. False-alarm probability given a tie
# that flips with probability p per probe: <= (1-p)^16 (1.5e-5 for p = 1/2).
_GENERIC = (0.7853981633974483, 0.6180339887498949, 0.5772156649015329, 0.6931471805599453,
            0.36787944117144233, 0.915965594177219, 0.8346268416740732, 0.5671432904097838)
CONFIRM = tuple(1 + sgn * PERTURB * g for g in _GENERIC[:3] for sgn in (1, -1))
TIE_PROBES = tuple(1 + sgn * PERTURB * g for g in _GENERIC for sgn in (1, -1))


def _relate(ts, cfg, c, kind, base, exact, tol):
    """Run the transformed configuration and relate it to `base` = run(ts, cfg).
    -> ("domain", reason) | ("same_failure", class) | ("match", maxrel) | ("mismatch", text, key)"""
    ct, cx = (c, 1.0) if kind == "time" else (1.0, c)
    sb, rb = run(ts, cfg, ct=ct, cx=cx)
    if sb == "domain":
        return ("domain", rb)
    sa, ra = base
    ca, cb = outcome_class(sa, ra), outcome_class(sb, rb)
    if ca != cb:
        return ("mismatch", f"outcome differs: base run {ca} ({ra if sa != 'ok' else ''!s:.80}), "
                            f"transformed run {cb} ({rb if sb != 'ok' else ''!s:.80})",
                "outcome:" + (exc_key(ra) if sa != "ok" else "ok") + "->" + (exc_key(rb) if sb != "ok" else "ok"))
    if sa != "ok":
        return ("same_failure", sa + ":" + exc_key(ra))
    crel = c if kind == "time" else 1.0
    bad = compare(ra, rb, crel, exact, tol)
    if not bad:
        return ("match", max_rel(ra, rb, crel))
    f, i, x, y, r = bad[0]
    p = power_of(f) if kind == "time" else 0
    return ("mismatch", f"{f}[{i}]: base {x!r}, transformed {y!r}, expected base*c^{p} (c={c!r}); rel.err {r:.3g}; "
                        f"{len(bad)} field(s) off: {[b[0] for b in bad]}", f)


def judge(ts, cfg, c, pow2, kind, ctx, tol):
    """The metamorphic verdict shared by C06 (kind='time') and C07 (kind='coord').
    Returns (verdict, info): verdict in {"held","discard","violation"}.
    Exact comparison for powers of two; otherwise tolerance + the confirmation rule of
    DESIGN §4, strengthened (mismatch must persist for six factors c(1 +- g 2^-20)) + a tie test
    (the base run must itself be stable under sixteen generic factors 1 +- g 2^-20, g full-mantissa
    constants in (0.3,1), else the mismatch is a rounding tie at a discontinuity: argmax /
    searchsorted / unique / phase<0.5)."""
    base = run(ts, cfg)
    if base[0] == "domain":
        return "discard", "domain:" + base[1]
    r = _relate(ts, cfg, c, kind, base, pow2, tol)
    if r[0] == "domain":
        return "discard", "domain:" + r[1]
    if r[0] == "same_failure":
        return "discard", "both_runs_" + r[1]
    if r[0] == "match":
        return "held", r[1]
    if not pow2 and base[0] == "ok" and base[1].get("_phase_margin", np.inf) < 1e-9:
        return "discard", "numerical tie: singleton phase within 1e-9 of 0.5"
    if pow2:
        return "violation", (r[2], r[1])
    ctx.label("first_stage_mismatch")
    for f in CONFIRM:
        r2 = _relate(ts, cfg, c * f, kind, base, False, tol)
        if r2[0] != "mismatch":
            return "discard", "numerical tie: mismatch not confirmed by neighbouring factor"
    for f in TIE_PROBES:
        r3 = _relate(ts, cfg, f, kind, base, False, tol)
        if r3[0] != "match":
            return "discard", "numerical tie: base run unstable under generic factors 1+-g*2^-20"
    return "violation", (r[2], r[1])


def outcome_class(status, res):
    if status == "ok":
        return "ok"
    if status == "domain":
        return "domain:" + str(res)
    return status + ":" + type(res).__name__


def describe_cfg(cfg):
    d = dict(cfg)
    if isinstance(d.get("timepoints"), list):
        d["timepoints"] = [float(x) for x in d["timepoints"]]
    return d


__all__ = ["config", "factor", "input_ts", "run", "compare", "max_rel", "outcome_class", "exc_key", "METHODS"]
