"""Direct per-tree tallies for C24 (no tsdate import).

Trusted: tskit tree iteration (`Tree.edge_array`, `Tree.parent_array`, `Tree.sites`).
Sample counts below a node are computed here from an arbitrary boolean mask by walking
up `parent_array` from every flagged node (tskit's own tracked-sample counts only accept
sample nodes).
"""

import math

import numpy as np
import tskit


def direct_tally(ts, mask, size_biased):
    """-> (edges_mutations, edges_span, mutations_edge)

    Each mutation counts on the edge above its node in the tree covering its position
    (none when the node has no parent there). Size-biased: each mutation and each unit of
    span of an edge (p, c) is weighted by the number of flagged nodes in the subtree of c
    (c included) in that local tree.
    """
    ne = ts.num_edges
    nn = ts.num_nodes
    mask = np.asarray(mask, dtype=bool)
    flagged = np.flatnonzero(mask)
    muts = [[] for _ in range(ne)]
    span = [[] for _ in range(ne)]
    mutations_edge = np.full(ts.num_mutations, tskit.NULL, dtype=np.int64)
    for tree in ts.trees():
        ea = tree.edge_array[:nn]
        pa = tree.parent_array[:nn]
        if size_biased:
            w = np.zeros(nn)
            for u in flagged:
                v = u
                while v != tskit.NULL:
                    w[v] += 1.0
                    v = pa[v]
        else:
            w = np.ones(nn)
        width = tree.interval.right - tree.interval.left
        for c in np.flatnonzero(ea != tskit.NULL):
            span[ea[c]].append(w[c] * width)
        for site in tree.sites():
            for m in site.mutations:
                e = ea[m.node]
                mutations_edge[m.id] = e
                if e != tskit.NULL:
                    muts[e].append(w[m.node])
    edges_mutations = np.array([math.fsum(x) for x in muts], dtype=float).reshape(ne)
    edges_span = np.array([math.fsum(x) for x in span], dtype=float).reshape(ne)
    return edges_mutations, edges_span, mutations_edge


def direct_blocks(ts, individuals_unphased):
    """Singleton blocks by definition.

    For every flagged individual (two nodes j, k): walk the trees left to right; a block is a
    maximal run of adjacent trees over which the pair (edge above j, edge above k) is the same
    pair of edge ids, both present. Its span is right - left of the run, its singletons are
    the mutations whose node is j or k and whose position lies in [left, right).

    -> (blocks, mutation_block, incomplete)
       blocks: list of dict(individual, edges=(min,max), left, right, span, singletons)
       mutation_block: index into blocks per mutation, -1 = in no block
       incomplete: True when some flagged individual has, somewhere, exactly one of its two
                   nodes attached, or carries a mutation at a position where not both are.
    """
    nn = ts.num_nodes
    blocks = []
    mutation_block = np.full(ts.num_mutations, -1, dtype=np.int64)
    incomplete = False
    positions = ts.sites_position[ts.mutations_site]
    for ind in ts.individuals():
        if not individuals_unphased[ind.id]:
            continue
        j, k = (int(x) for x in ind.nodes)
        cur = None
        mine = np.flatnonzero((ts.mutations_node == j) | (ts.mutations_node == k))
        runs = []
        for tree in ts.trees():
            ea = tree.edge_array[:nn]
            ej, ek = int(ea[j]), int(ea[k])
            left, right = tree.interval.left, tree.interval.right
            if (ej == tskit.NULL) != (ek == tskit.NULL):
                incomplete = True
            if ej != tskit.NULL and ek != tskit.NULL:
                pair = (min(ej, ek), max(ej, ek))
                if cur is not None and cur["edges"] == pair:
                    cur["right"] = right
                else:
                    if cur is not None:
                        runs.append(cur)
                    cur = dict(individual=ind.id, edges=pair, left=left, right=right)
            else:
                if cur is not None:
                    runs.append(cur)
                cur = None
        if cur is not None:
            runs.append(cur)
        for r in runs:
            r["span"] = r["right"] - r["left"]
            inside = [m for m in mine if r["left"] <= positions[m] < r["right"]]
            r["singletons"] = len(inside)
            for m in inside:
                mutation_block[m] = len(blocks)
            blocks.append(r)
        if np.any(mutation_block[mine] == -1):
            incomplete = True
    return blocks, mutation_block, incomplete
