"""
Sensitivity audit: apply a patch to a scratch copy of /repo (outside /repo and /verif), run
the named checks against the copy (VT_REPO), report whether each one raises a VIOLATION,
then delete the copy and its JIT cache.

usage: python -m vt.audit <patch> <PROP> [<PROP> ...] [--tier quick] [--examples N] [--keep]
"""

import argparse
import hashlib
import glob
import os
import shutil
import subprocess
import sys
import tempfile
import time

ROOT = os.path.dirname(os.path.dirname(os.path.abspath(__file__)))


def main():
    ap = argparse.ArgumentParser()
    ap.add_argument("patch")
    ap.add_argument("props", nargs="+")
    ap.add_argument("--tier", default="quick")
    ap.add_argument("--examples", type=int)
    ap.add_argument("--shards", type=int)
    ap.add_argument("--seed", default="1")
    args = ap.parse_args()
    patch = os.path.abspath(args.patch)
    tmp = tempfile.mkdtemp(prefix="vt_audit_", dir="/tmp")
    dst = os.path.join(tmp, "repo")
    try:
        shutil.copytree("/repo", dst, ignore=shutil.ignore_patterns(".git", "__pycache__", "docs", "*.trees"))
        r = subprocess.run(["patch", "-p1", "-i", patch], cwd=dst, capture_output=True, text=True)
        if r.returncode != 0:
            print("PATCH FAILED", r.stdout, r.stderr)
            return 3
        srcs = sorted(glob.glob(os.path.join(dst, "tsdate", "*.py")))
        h = hashlib.sha256()
        for s in srcs:
            with open(s, "rb") as f:
                h.update(f.read())
        cache = os.path.join(ROOT, ".cache", "numba", h.hexdigest()[:16])
        results = {}
        for p in args.props:
            env = dict(os.environ, VT_REPO=dst, VERIF_SEED=args.seed, VT_OUT_DIR=os.path.join(tmp, "out"))
            cmd = [os.path.join(ROOT, "check"), p, "--tier", args.tier, "--no-shrink"]
            if args.examples:
                cmd += ["--examples", str(args.examples)]
            if args.shards:
                cmd += ["--shards", str(args.shards)]
            t0 = time.time()
            r = subprocess.run(cmd, env=env, capture_output=True, text=True, cwd=ROOT)
            lines = [l for l in r.stdout.splitlines() if l.startswith(("VIOLATION", "HARNESS-ERROR", "[", "KNOWN"))]
            results[p] = (r.returncode, time.time() - t0)
            print(f"== {p}: exit={r.returncode} wall={time.time() - t0:.0f}s")
            for l in lines[:12]:
                print("   ", l[:300])
            if r.returncode not in (0, 1):
                print(r.stdout[-1500:], r.stderr[-1500:])
        caught = [p for p, (rc, _) in results.items() if rc == 1]
        print(f"AUDIT patch={os.path.basename(patch)} caught_by={caught} missed_by={[p for p in results if p not in caught]}")
        return 0
    finally:
        shutil.rmtree(tmp, ignore_errors=True)
        try:
            shutil.rmtree(cache, ignore_errors=True)
        except Exception:
            pass
        # the evidence files were overwritten by runs against a mutant: callers re-run checks


if __name__ == "__main__":
    sys.exit(main())
