"""Regenerate MANIFEST.json from the property modules that exist (vt/props/cNN.py) and
vt/manifest_meta.json (per-property level text, notes, not_applicable reasons).
Validates against /root/.vp/MANIFEST.schema.json when jsonschema is importable."""

import json
import os
import sys

ROOT = os.path.dirname(os.path.dirname(os.path.abspath(__file__)))


def main():
    props = [json.loads(l) for l in open(os.path.join(ROOT, "properties.jsonl"))]
    meta = json.load(open(os.path.join(ROOT, "vt", "manifest_meta.json")))
    md = os.path.join(ROOT, "vt", "meta.d")
    if os.path.isdir(md):
        for fn in sorted(os.listdir(md)):
            if fn.endswith(".json"):
                for k, v in json.load(open(os.path.join(md, fn))).items():
                    meta["checks"].setdefault(k, v)
    checks, na = [], []
    for p in props:
        pid = p["id"]
        m = meta["checks"].get(pid)
        has_mod = os.path.exists(os.path.join(ROOT, "vt", "props", pid.lower() + ".py"))
        if m and has_mod and not m.get("unclaimed"):
            checks.append(dict(
                property_id=pid,
                quick_cmd=f"./check {pid} --tier quick",
                thorough_cmd=f"./check {pid} --tier thorough",
                evidence_file=f"evidence/{pid}.json",
                replay_cmd_template=f"./check {pid} --replay {{path}}",
                engine="hypothesis-runner",
                level_claimed=dict(category=m.get("category", "exploration"), text=m["text"],
                                   design_ref=m.get("design_ref", f"DESIGN.md §5 {pid}")),
                level_note=m["note"],
                technique=m["technique"],
            ))
        else:
            reason = (m or {}).get("unclaimed") or meta["not_applicable"].get(pid) or \
                "check not built yet in this session; the design (DESIGN.md §5) applies property-based testing to it"
            na.append(dict(property_id=pid, reason=reason))
    man = dict(
        version=1,
        setup_cmd="./setup.sh",
        hooks=dict(
            guard="TSDATE_VERIF",
            enable="no source hooks: checks import /repo's working tree directly (editable install) and wrap functions from the harness process",
            baseline_off_cmd="cd /repo && /venv/bin/python -m pytest -ra -q -p no:cacheprovider --timeout=900 --continue-on-collection-errors",
            source_commits=[],
            add_only=True,
        ),
        engines=[dict(
            name="hypothesis-runner",
            path="vt/runner.py",
            serves_properties=[c["property_id"] for c in checks],
            kind_free_text="Hypothesis 6.168 generators + explicit oracles; collect-don't-stop bucketing, "
                           "shrinking to replay files, sharded over forked workers; enumerations for finite sub-spaces",
        )],
        checks=checks,
        notes=meta.get("notes", ""),
        not_applicable=na,
    )
    out = os.path.join(ROOT, "MANIFEST.json")
    with open(out + ".tmp", "w") as f:
        json.dump(man, f, indent=1)
    try:
        import jsonschema

        schema = json.load(open("/root/.vp/MANIFEST.schema.json"))
        jsonschema.validate(man, schema)
    except ImportError:
        pass
    os.replace(out + ".tmp", out)
    print(f"MANIFEST.json: {len(checks)} checks, {len(na)} not_applicable")


if __name__ == "__main__":
    sys.exit(main())
