/* LD_PRELOAD shim: hands the schedule of file-system syscalls under one directory to the
 * test harness. Inert until vtgate_enable() is called in the process (the harness forks a
 * writer, the child enables the gate, then runs the code under test). Before every gated
 * syscall the process writes "<op> <arg>\n" to req_fd and blocks until it reads one byte
 * from grant_fd: 'g' = go ahead, 'k' = die here (crash injection). */
#define _GNU_SOURCE
#include <dlfcn.h>
#include <fcntl.h>
#include <stdarg.h>
#include <stdio.h>
#include <string.h>
#include <unistd.h>
#include <signal.h>
#include <sys/types.h>

/* activation is per thread: a writer is either a forked process (its main thread) or a
 * thread of the harness process. Grant bytes: 'g' go; 'k' die here (process mode: SIGKILL;
 * thread mode: park forever = a crashed process whose user-space buffers are lost);
 * 'p' + 8-byte count (write only): perform a partial write of that many bytes, then die. */
static __thread int g_active = 0, g_req = -1, g_grant = -1, g_threadmode = 0;
static __thread char g_prefix[1024];
static unsigned char g_tracked[65536];

void vtgate_enable(int req_fd, int grant_fd, const char *prefix, int threadmode) {
    g_req = req_fd; g_grant = grant_fd; g_threadmode = threadmode;
    strncpy(g_prefix, prefix, sizeof(g_prefix) - 1);
    g_active = 1;
}
void vtgate_disable(void) { g_active = 0; }

static void die_here(void) {
    g_active = 0;
    if (g_threadmode) { for (;;) pause(); }
    signal(SIGKILL, SIG_DFL); kill(getpid(), SIGKILL); _exit(99);
}

static ssize_t (*real_write)(int, const void *, size_t);
static ssize_t (*real_read)(int, void *, size_t);

static int under(const char *path) {
    return g_active && path && strncmp(path, g_prefix, strlen(g_prefix)) == 0;
}

static long gate(const char *op, const char *a, long n) {
    char buf[2300]; char c = 0; long partial = -1;
    if (!real_write) real_write = dlsym(RTLD_NEXT, "write");
    if (!real_read) real_read = dlsym(RTLD_NEXT, "read");
    int len = snprintf(buf, sizeof buf, "%s %ld %s\n", op, n, a ? a : "-");
    if (real_write(g_req, buf, len) != len) _exit(97);
    if (real_read(g_grant, &c, 1) != 1) _exit(98);
    if (c == 'k') die_here();
    if (c == 'p') { if (real_read(g_grant, &partial, 8) != 8) _exit(96); }
    return partial;
}

#define OPEN_BODY(NAME, CALL) \
    static int (*real)(const char *, int, ...); \
    mode_t mode = 0; \
    if (flags & (O_CREAT | O_TMPFILE)) { va_list ap; va_start(ap, flags); mode = va_arg(ap, mode_t); va_end(ap); } \
    if (!real) real = dlsym(RTLD_NEXT, NAME); \
    int w = under(path) && ((flags & O_ACCMODE) != O_RDONLY); \
    if (w) gate((flags & O_TRUNC) ? "open_trunc" : ((flags & O_EXCL) ? "open_excl" : "open_w"), path, 0); \
    int fd = real(path, flags, mode); \
    if (w && fd >= 0 && fd < 65536) g_tracked[fd] = 1; \
    return fd;

int open(const char *path, int flags, ...) { OPEN_BODY("open", 0) }
int open64(const char *path, int flags, ...) { OPEN_BODY("open64", 0) }

#define OPENAT_BODY(NAME) \
    static int (*real)(int, const char *, int, ...); \
    mode_t mode = 0; \
    if (flags & (O_CREAT | O_TMPFILE)) { va_list ap; va_start(ap, flags); mode = va_arg(ap, mode_t); va_end(ap); } \
    if (!real) real = dlsym(RTLD_NEXT, NAME); \
    int w = under(path) && ((flags & O_ACCMODE) != O_RDONLY); \
    if (w) gate((flags & O_TRUNC) ? "open_trunc" : ((flags & O_EXCL) ? "open_excl" : "open_w"), path, 0); \
    int fd = real(dirfd, path, flags, mode); \
    if (w && fd >= 0 && fd < 65536) g_tracked[fd] = 1; \
    return fd;

int openat(int dirfd, const char *path, int flags, ...) { OPENAT_BODY("openat") }
int openat64(int dirfd, const char *path, int flags, ...) { OPENAT_BODY("openat64") }

ssize_t write(int fd, const void *buf, size_t n) {
    if (!real_write) real_write = dlsym(RTLD_NEXT, "write");
    if (g_active && fd >= 0 && fd < 65536 && g_tracked[fd]) {
        long partial = gate("write", "-", (long)n);
        if (partial >= 0) {
            size_t m = (size_t)partial < n ? (size_t)partial : n, done = 0;
            while (done < m) { ssize_t r = real_write(fd, (const char *)buf + done, m - done); if (r <= 0) break; done += r; }
            die_here();
        }
    }
    return real_write(fd, buf, n);
}

int close(int fd) {
    static int (*real)(int);
    if (!real) real = dlsym(RTLD_NEXT, "close");
    if (g_active && fd >= 0 && fd < 65536 && g_tracked[fd]) { g_tracked[fd] = 0; gate("close", "-", 0); }
    return real(fd);
}

int ftruncate(int fd, off_t len) {
    static int (*real)(int, off_t);
    if (!real) real = dlsym(RTLD_NEXT, "ftruncate");
    if (g_active && fd >= 0 && fd < 65536 && g_tracked[fd]) gate("ftruncate", "-", (long)len);
    return real(fd, len);
}

int rename(const char *a, const char *b) {
    static int (*real)(const char *, const char *);
    if (!real) real = dlsym(RTLD_NEXT, "rename");
    if (under(a) || under(b)) gate("rename", b, 0);
    return real(a, b);
}
int renameat(int ad, const char *a, int bd, const char *b) {
    static int (*real)(int, const char *, int, const char *);
    if (!real) real = dlsym(RTLD_NEXT, "renameat");
    if (under(a) || under(b)) gate("rename", b, 0);
    return real(ad, a, bd, b);
}
int renameat2(int ad, const char *a, int bd, const char *b, unsigned int fl) {
    static int (*real)(int, const char *, int, const char *, unsigned int);
    if (!real) real = dlsym(RTLD_NEXT, "renameat2");
    if (under(a) || under(b)) gate("rename", b, 0);
    return real(ad, a, bd, b, fl);
}
int unlink(const char *a) {
    static int (*real)(const char *);
    if (!real) real = dlsym(RTLD_NEXT, "unlink");
    if (under(a)) gate("unlink", a, 0);
    return real(a);
}
int unlinkat(int d, const char *a, int fl) {
    static int (*real)(int, const char *, int);
    if (!real) real = dlsym(RTLD_NEXT, "unlinkat");
    if (under(a)) gate("unlink", a, 0);
    return real(d, a, fl);
}
int link(const char *a, const char *b) {
    static int (*real)(const char *, const char *);
    if (!real) real = dlsym(RTLD_NEXT, "link");
    if (under(a) || under(b)) gate("link", b, 0);
    return real(a, b);
}
