"""C05 — variational posteriors are proper, precision-capped gamma distributions.

Oracle (I) on the fit object returned by variational_gamma (`return_fit=True`):
  * every non-sample node: mean and variance finite and > 0, mean^2/variance <= max_shape*(1+1e-9);
  * every mutation: mean and variance both NaN, or both finite and > 0;
  * every unphased-singleton entry of fit.mutation_phase: NaN or in [0.5, 1].
If date() itself dies with a tskit.LibraryError in get_modified_ts (e.g. non-finite times) the same
EP object is rebuilt through tsdate.variational.ExpectationPropagation with the same options and
judged, so that an improper posterior cannot hide behind the crash it causes.
"""

import numpy as np
import tskit
from hypothesis import strategies as st

from vt.common import call, node_is_sample
from vt.gen import cfg_a as A
from vt.gen import ts as G
from vt.runner import Violation

ID = "C05"
LEVEL = "exploration"
RULE = (
    "cases = variational_gamma on (a) general generated tree sequences (historical/internal samples, multi-root, "
    "mutations above roots), (b) stress inputs: built trees whose local trees are squeezed to widths 1e-6..100 "
    "with the narrow trees stripped of mutations and 50-2000 extra mutations on one edge, (c) contemporaneous "
    "inputs with diploid individuals and singletons_phased=False; x max_iterations 1-25 (weighted to 1-2), "
    "max_shape 1.5-1e4 (weighted to <=5), rescaling off / 2 / 5 intervals, regularise_roots, mutation rates over "
    "18 decades; non-trivial = some node posterior sits at the shape cap, or an EP update was skipped "
    "(NaN in fit.edge_logconst / NaN posterior of a mutation that is on an edge), or an unphased singleton "
    "exists; distinct by SHA-1 of the case"
)
ASSUMPTIONS = [
    "fit.mutation_blocks != -1 identifies the unphased singletons (C22/C24 own that classification)",
    "max_shape default is 1000, max_iterations default 25 (tsdate.core)",
    "F2 (rescaling assertion) and F8 (unphased singleton assertion on isolated sample nodes) are discarded: C35 owns them",
]


def budget(tier):
    if tier == "quick":
        return dict(examples=110, shards=4, time_s=1800)  # cap only: cold-JIT audits on a loaded machine
    return dict(examples=1200, shards=16)


@st.composite
def stress_ts(draw, tier):
    ts = draw(G.built_ts(max_n=6, max_trees=6, max_arity=3, span_choices=(1.0, 100.0), min_muts=1, root_muts=False))
    widths = draw(st.lists(st.sampled_from([1e-6, 1e-6, 1e-4, 1.0, 100.0]), min_size=1, max_size=6))
    ts = A.squeeze_trees(ts, widths)
    if draw(st.booleans()):
        ts = A.strip_mutations_in_narrow_trees(ts, 1e-3)
    n_heavy = draw(st.sampled_from([0, 50, 500, 500, 2000]))
    if n_heavy:
        ts = A.heavy_edge(ts, draw(st.integers(0, 1000)), n_heavy)
    if draw(st.booleans()):
        # historical leaves far older than what the mutation clock says (drives the rootward /
        # leafward updates into the region where mutation updates get skipped)
        ts = A.historical_leaves(ts, draw(st.lists(st.integers(0, 100), min_size=1, max_size=3)), [0.5, 0.9375, 0.25])
    return ts


@st.composite
def strategy_(draw, tier):
    mode = draw(st.sampled_from(["general", "general", "stress", "stress", "unphased"]))
    if mode == "general":
        case = draw(A.dating_case(tier, methods=("variational_gamma",), stress=draw(st.booleans()), set_metadata=(None,)))
    elif mode == "unphased":
        case = draw(A.dating_case(tier, methods=("variational_gamma",), stress=draw(st.booleans()), unphased=True,
                                  set_metadata=(None,)))
    else:
        case = draw(A.dating_case(tier, methods=("variational_gamma",), stress=True, set_metadata=(None,)))
        ts = draw(stress_ts(tier))
        if case["kw"].get("singletons_phased") is False:
            ts = A.add_diploid_individuals(ts, 0)
        case["ts"] = ts
        case["kw"]["mutation_rate"] = A.mutation_rate_for(draw, ts, spread=(-8, -6, -3, -3, 0, 0, 3, 6))
        case["cls"] = ["in=stress"]
    case["cls"] = case["cls"] + ["mode=" + mode]
    return case


def strategy(tier):
    return strategy_(tier)


def rebuild_fit(case):
    """the EP object exactly as tsdate.core.VariationalGammaMethod.run builds it"""
    from tsdate import variational

    kw = case["kw"]
    fit = variational.ExpectationPropagation(case["ts"], mutation_rate=kw["mutation_rate"], allow_unary=False,
                                             singletons_phased=kw.get("singletons_phased", True))
    fit.infer(ep_iterations=kw.get("max_iterations", 25), max_shape=kw.get("max_shape", 1000),
              rescale_intervals=kw.get("rescaling_intervals", 1000), rescale_iterations=kw.get("rescaling_iterations", 5),
              regularise=kw.get("regularise_roots", True), rescale_segsites=kw.get("match_segregating_sites", False))
    return fit


def judge(case, fit, ctx):
    ts = case["ts"]
    max_shape = case["kw"].get("max_shape", 1000)
    out = []
    post = fit.node_posteriors()
    mn = np.asarray(post["mean"], dtype=float)
    vr = np.asarray(post["variance"], dtype=float)
    free = ~node_is_sample(ts)
    idx = np.flatnonzero(free)
    bad = idx[~(np.isfinite(mn[idx]) & np.isfinite(vr[idx]))]
    if len(bad):
        u = int(bad[0])
        out.append(Violation("node_posterior:nonfinite", f"non-sample node {u}: mean={mn[u]!r} variance={vr[u]!r}", nodes=bad[:5]))
    else:
        bad = idx[~((mn[idx] > 0) & (vr[idx] > 0))]
        if len(bad):
            u = int(bad[0])
            out.append(Violation("node_posterior:nonpositive", f"non-sample node {u}: mean={mn[u]!r} variance={vr[u]!r}", nodes=bad[:5]))
        else:
            shape = mn[idx] * mn[idx] / vr[idx]
            over = idx[shape > max_shape * (1 + 1e-9)]
            if len(over):
                u = int(over[0])
                out.append(Violation("node_posterior:shape_above_cap",
                                     f"non-sample node {u}: shape mean^2/variance = {mn[u] * mn[u] / vr[u]!r} > max_shape {max_shape!r}",
                                     nodes=over[:5]))
            if len(shape) and np.any(shape >= max_shape * (1 - 1e-6)):
                ctx.label("cap_hit")
                ctx.mark_nontrivial()
    mpost = fit.mutation_posteriors()
    mm = np.asarray(mpost["mean"], dtype=float)
    mv = np.asarray(mpost["variance"], dtype=float)
    nan_both = np.isnan(mm) & np.isnan(mv)
    proper = np.isfinite(mm) & np.isfinite(mv) & (mm > 0) & (mv > 0)
    bad = np.flatnonzero(~(nan_both | proper))
    if len(bad):
        m = int(bad[0])
        kind = "half_undefined" if (np.isnan(mm[m]) != np.isnan(mv[m])) else ("nonfinite" if not (np.isfinite(mm[m]) and np.isfinite(mv[m])) else "nonpositive")
        out.append(Violation(f"mutation_posterior:{kind}", f"mutation {m}: mean={mm[m]!r} variance={mv[m]!r}", mutations=bad[:5]))
    phase = np.asarray(fit.mutation_phase, dtype=float)
    unph = np.asarray(fit.mutation_blocks) != tskit.NULL
    if unph.any():
        ctx.label("unphased_singletons")
        ctx.mark_nontrivial()
        ph = phase[unph]
        ok = np.isnan(ph) | ((ph >= 0.5) & (ph <= 1.0))
        if not ok.all():
            m = int(np.flatnonzero(unph)[np.flatnonzero(~ok)[0]])
            out.append(Violation("phase:out_of_range", f"unphased singleton mutation {m}: phase probability {phase[m]!r} not in [0.5, 1]"))
        if np.isnan(ph).any():
            ctx.label("phase_undefined")
        if np.any((ph > 0.5) & (ph < 1.0)):
            ctx.label("phase_strictly_between")
    # skipped updates
    skipped_edges = bool(np.isnan(fit.edge_logconst).any() or np.isnan(fit.block_logconst).any())
    on_edge = np.asarray(fit.mutation_edges) != tskit.NULL
    skipped_muts = bool(np.any(nan_both & on_edge))
    if skipped_edges:
        ctx.label("skipped_edge_updates")
    if skipped_muts:
        ctx.label("skipped_mutation_updates")
    if skipped_edges or skipped_muts:
        ctx.mark_nontrivial()
    if np.any(nan_both & ~on_edge):
        ctx.label("mutation_above_root_undefined")
    return out


def check(case, ctx):
    ts = case["ts"]
    kw = case["kw"]
    status, res = A.run_dating(case)
    crashed = False
    if status != "ok":
        if status == "internal" and isinstance(res, tskit.LibraryError) and A.raised_in(res, "get_modified_ts"):
            st2, fit = call(rebuild_fit, case)
            if st2 != "ok":
                ctx.discard(A.classify_failure(status, res))
                return []
            crashed = True
            ctx.label("date_crashed_in_get_modified_ts")
        else:
            ctx.discard(A.classify_failure(status, res))
            return []
    else:
        fit = res[1]
    ctx.label(*A.option_labels(case), *A.input_labels(ts), *[c for c in case["cls"] if c.startswith("mode=")],
              f"max_iterations={kw.get('max_iterations', 'default')}", f"max_shape={kw.get('max_shape', 'default')}")
    out = judge(case, fit, ctx)
    if crashed and not out:
        ctx.discard("internal:invalid_output(C01/F1)")
    return out


def describe(case):
    return A.describe(case)
