"""C37 — standalone tree-sequence rescaling works.

Oracle (I/M) on the value returned by rescaling.rescale_tree_sequence(ts, mutation_rate, ...):
 * it is a tree sequence (tskit validated it) with the same nodes (count, flags), the same
   edge table, the same sites and, per site, the same multiset of (node, derived state);
 * sample times are bit-identical to the input;
 * non-sample times are a non-decreasing function of the input times: sorted by input time
   the output is non-decreasing (1e-12 relative slack: the piecewise-linear map is evaluated
   per node, so two inputs straddling a break may differ by an ulp; no reversal at all was seen
   with fixes_proposed/C37_rescale_ts.patch applied, 1.2e3 cases) and equal inputs give equal
   outputs (exact: same operations);
 * every mutation's time is (t[parent] + t[child]) / 2 of the edge above its node at its
   position (exact: one addition and a halving), or its node's time above a root.

Any exception other than the two few-mutation assertions that C35 owns is a violation
("returns a valid tree sequence ... for every simplified input whose samples are at time 0").
"""

import numpy as np
import tskit
from hypothesis import strategies as st

from tsdate import rescaling

from vt.common import call, exc_key, node_is_sample
from vt.gen import ts as G
from vt.runner import Violation

ID = "C37"
LEVEL = "exploration"
RULE = (
    "cases = simplified tree sequence with all samples at time 0 and its true (simulated or constructed) node "
    "times, incl. recombination, polytomies, several roots, mutations above roots x mutation_rate x num_intervals "
    "in {1,2,3,10,100} x num_iterations in {0,1,2,10} x match_segregating_sites; non-trivial = >= 3 distinct "
    "non-sample input times, >= 5 mutations on edges and num_iterations >= 1; distinct by SHA-1 of (tables, arguments)"
)
ASSUMPTIONS = [
    "tskit validation (tables.tree_sequence()) and Tree.edge_array trusted",
    "AssertionError 'Use fewer rescaling intervals' / 'Zero edge span in interval' on inputs with too few mutations "
    "for the requested number of intervals belongs to C35 (finding F2) and is counted as a discard",
    "monotonicity compared with 1e-12 relative slack; ties, sample times and mutation midpoints exactly",
]

MONO_RTOL = 1e-12


def budget(tier):
    if tier == "quick":
        return dict(examples=300, shards=4)
    return dict(examples=2000, shards=16)


@st.composite
def strategy_(draw, tier):
    ts = draw(G.general_ts(tier=tier, contemporaneous=True, single_root=draw(st.sampled_from([True, True, False])),
                           min_muts=draw(st.sampled_from([5, 10, 30])), allow_polytomy=True))
    n_root = draw(st.sampled_from([0, 0, 1, 2]))
    if n_root:
        ts = G.add_root_and_isolated_mutations(ts, n_root, 0, draw(st.lists(st.integers(0, 15), min_size=1, max_size=4)))
    ts = ts.simplify()
    return dict(
        ts=ts,
        mu=10.0 ** draw(st.integers(-4, 0)) * draw(st.sampled_from([1.0, 2.5])),
        num_intervals=draw(st.sampled_from([3, 1, 2, 10, 100, 1])),
        num_iterations=draw(st.sampled_from([1, 2, 10, 1, 0])),
        segsites=draw(st.booleans()),
    )


def strategy(tier):
    return strategy_(tier)


def edge_above(ts):
    """edge above each mutation's node at its position (tskit trees), -1 above a root"""
    out = np.full(ts.num_mutations, tskit.NULL, dtype=np.int64)
    nn = ts.num_nodes
    for tree in ts.trees():
        ea = tree.edge_array[:nn]
        for site in tree.sites():
            for m in site.mutations:
                out[m.id] = ea[m.node]
    return out


def site_multisets(ts):
    out = []
    for site in ts.sites():
        out.append((site.position, site.ancestral_state,
                    sorted((m.node, m.derived_state) for m in site.mutations)))
    return out


def check(case, ctx):
    ts = case["ts"]
    is_s = node_is_sample(ts)
    ctx.label(f"intervals={case['num_intervals']}", f"iterations={case['num_iterations']}",
              f"segsites={case['segsites']}")
    if ts.num_trees >= 2:
        ctx.label("trees>=2")
    if ts.num_edges == 0 or not G.is_contemporaneous(ts):
        ctx.discard("outside_domain")
        return []
    e_in = edge_above(ts)
    on_edge = int(np.sum(e_in != tskit.NULL))
    if on_edge < ts.num_mutations:
        ctx.label("mutation_above_root")
    t_in = ts.nodes_time
    distinct = np.unique(t_in[~is_s]).size
    if distinct >= 3 and on_edge >= 5 and case["num_iterations"] >= 1:
        ctx.mark_nontrivial()
        ctx.label("nontrivial")
    status, res = call(rescaling.rescale_tree_sequence, ts, case["mu"], num_intervals=case["num_intervals"],
                       num_iterations=case["num_iterations"], match_segregating_sites=case["segsites"])
    if status == "rejected" and "use fewer rescaling intervals" in str(res):
        # more intervals than the mutations can support: since the F2 repair this is a clean, advised
        # rejection of the (input, num_intervals) combination (it was an AssertionError, discarded below)
        ctx.discard("rejected:too_few_mutations_for_num_intervals")
        return []
    if status == "rejected":
        return [Violation("rejected:" + exc_key(res), f"contemporaneous simplified input rejected: {res!r}")]
    if status == "internal":
        msg = str(res)
        if isinstance(res, AssertionError) and ("Use fewer rescaling intervals" in msg or "Zero edge span" in msg):
            ctx.discard("internal:few_mutations_assertion (C35)")
            return []
        return [Violation("raised:" + exc_key(res), f"rescale_tree_sequence(ts, {case['mu']}, num_intervals={case['num_intervals']}, "
                          f"num_iterations={case['num_iterations']}, match_segregating_sites={case['segsites']}) raised "
                          f"{type(res).__name__}: {str(res)[:200]}")]
    out = []
    rts = res
    ctx.label("returned")
    if not isinstance(rts, tskit.TreeSequence):
        return [Violation("not_a_tree_sequence", f"returned {type(rts)}")]
    # topology
    same = (
        rts.num_nodes == ts.num_nodes
        and np.array_equal(rts.nodes_flags, ts.nodes_flags)
        and rts.num_edges == ts.num_edges
        and np.array_equal(rts.edges_left, ts.edges_left)
        and np.array_equal(rts.edges_right, ts.edges_right)
        and np.array_equal(rts.edges_parent, ts.edges_parent)
        and np.array_equal(rts.edges_child, ts.edges_child)
    )
    if not same:
        return [Violation("topology_changed", "node flags or edge table differ from the input")]
    if site_multisets(rts) != site_multisets(ts):
        return [Violation("sites_or_mutations_changed", "sites / per-site (node, derived state) multisets differ from the input")]
    t_out = rts.nodes_time
    if not np.array_equal(t_out[is_s], t_in[is_s]):
        out.append(Violation("sample_times_changed", f"sample times changed: {t_out[is_s][:5]} vs {t_in[is_s][:5]}"))
    # monotone map on non-samples
    idx = np.flatnonzero(~is_s)
    order = idx[np.argsort(t_in[idx], kind="stable")]
    a, b = t_in[order], t_out[order]
    if np.any(b != t_in[order]):
        ctx.label("times_moved")
    for i in range(len(order) - 1):
        if a[i] == a[i + 1]:
            if b[i] != b[i + 1]:
                out.append(Violation("tie_broken", f"nodes {order[i]} and {order[i + 1]} share input time {a[i]!r} but get "
                                     f"{b[i]!r} and {b[i + 1]!r}"))
                break
        elif b[i + 1] < b[i] * (1 - MONO_RTOL):
            out.append(Violation("order_reversed", f"node {order[i]} (input {a[i]!r}) -> {b[i]!r} but node {order[i + 1]} "
                                 f"(input {a[i + 1]!r}) -> {b[i + 1]!r}"))
            break
    # mutation times
    e_out = edge_above(rts)
    mt = rts.mutations_time
    for m in range(rts.num_mutations):
        e = e_out[m]
        if e == tskit.NULL:
            want = t_out[rts.mutations_node[m]]
            kind = "above_root"
        else:
            want = (t_out[rts.edges_parent[e]] + t_out[rts.edges_child[e]]) / 2
            kind = "midpoint"
        if not mt[m] == want:
            out.append(Violation(f"mutation_time:{kind}", f"mutation {m} (node {rts.mutations_node[m]}, edge {int(e)}) has time "
                                 f"{mt[m]!r}, expected {want!r}"))
            break
    return out


def describe(case):
    return dict(ts=G.ts_summary(case["ts"]), mu=case["mu"], num_intervals=case["num_intervals"],
                num_iterations=case["num_iterations"], segsites=case["segsites"])
