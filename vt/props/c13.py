"""C13 — maximization picks ordered grid timepoints by the documented rule.

Oracle (R): `fit.inside` is taken as given (the inside pass is the subject of C10/C12). In a
parents-first order obtained from the edge relation (Kahn), every non-sample node u is
re-decided from tsdate's own assignment of its parents:

  * never a child:  argmax_t inside[u][t]
  * otherwise:      argmax_{t <= y} inside[u][t] * prod_{edges e=(p,u)} Poisson(m_e; (T_p - tau_t + eps) mu span_e)
                    with y = min over the parents of their assigned index, T_p the parent's
                    assigned timepoint; every *edge* (same parent in different trees = distinct
                    edges) contributes one factor with its own span and mutation count.

The Poisson terms come from scipy.stats.poisson.logpmf; the objective is evaluated in the
log domain for both probability spaces (the per-edge normalisation by max that tsdate applies
does not change the argmax). Clauses: (i) every assigned value is a grid timepoint,
(ii) index(child) <= index(parent) on every edge, (iii) the assigned index is the oracle's
argmax, or its objective is within 1e-9 of the maximum (tie rule, counted per node),
(iv) returned node times are the assigned timepoints raised only by the forced
branch-length recursion.

Calibration (unchanged tree, 5 quick runs = 5 000 cases, both spaces): every node was the exact
argmax of the recomputed objective; the tie rule and the linear-underflow exit were never needed
(labels `case_with_tied_node`, discard `linear_underflow_at_candidate` stay at 0).
"""

import numpy as np
from hypothesis import strategies as st

from vt.common import exc_key
from vt.gen import discrete_d2 as D
from vt.gen import ts as G
from vt.runner import Violation

ID = "C13"
LEVEL = "exploration"
RULE = (
    "cases = (contemporaneous single-root tree sequence incl. polytomies and nodes with several "
    "parents across trees, or a single small tree; optional re-timing of the input so that input "
    "order and inferred order of parents disagree; prior spec; theta; eps; probability space); "
    "non-trivial = some node has >= 2 distinct parents whose assigned grid indices differ; "
    "distinct by SHA-1 of the case"
)
ASSUMPTIONS = [
    "fit.inside is taken as given (inside pass is judged by C10/C12)",
    "scipy.stats.poisson, numpy, tskit (mutations_edge) trusted",
    "linear space: nodes where a Poisson factor or tsdate's normalised product is below e^-650 at "
    "either candidate are outside the domain (documented underflow of linear space); counted",
    "objective values within 1e-9 (log domain) are ties: either timepoint is accepted",
]
MBL = 1e-8  # tsdate.core.DEFAULT_MIN_BRANCH_LENGTH (documented default of min_branch_length)


def budget(tier):
    if tier == "quick":
        return dict(examples=250, shards=4)
    return dict(examples=2500, shards=16)


@st.composite
def strategy_(draw, tier):
    src = draw(st.sampled_from(["general", "general", "general", "tree"]))
    if src == "tree":
        ts = draw(G.single_tree())
    else:
        ts = draw(G.general_ts(tier=tier, contemporaneous=True, single_root=True, min_muts=1))
    retime = draw(st.sampled_from([None, None, "equal", "random"]))
    if retime == "equal":
        ts = G.retime_nonsamples(ts, [1.0])
    elif retime == "random":
        incs = draw(st.lists(st.sampled_from([0.01, 0.3, 1.0, 1.0, 7.0, 100.0]), min_size=2, max_size=12))
        ts = G.retime_nonsamples(ts, incs)
    return dict(
        ts=ts, src=src, retime=retime or "none",
        spec=draw(D.prior_spec()),
        theta=draw(D.rate_spec(-2, 2)),
        eps=draw(st.sampled_from([None, None, 0.0, 1e-10, 1e-6, 1e-2, 1.0])),
        space=draw(st.sampled_from([D.LOG, D.LIN])),
    )


def strategy(tier):
    return strategy_(tier)


def check(case, ctx):
    ts, spec, space = case["ts"], case["spec"], case["space"]
    eps = 1e-8 if case["eps"] is None else case["eps"]
    ctx.label("space=" + space, "src=" + case["src"], "prior=" + spec["kind"], "retime=" + case["retime"])
    if ts.num_mutations == 0:
        ctx.discard("no_mutations")
        return []
    status, res = D.run_discrete(ts, "maximization", spec, case["theta"], case["eps"], space)
    if status == "rejected":
        ctx.discard("rejected:" + exc_key(res))
        return []
    if status == "internal":
        ctx.discard("internal:" + exc_key(res))  # belongs to C35 / C12 (linear underflow)
        return []
    dts, fit, _ = res
    mu = D.mutation_rate(ts, spec, case["theta"])
    dag = D.Dag(ts)
    tp = np.asarray(fit.lik.timepoints, dtype=float)
    pm = np.asarray(fit.posterior_mean, dtype=float)
    idx = D.grid_index(tp, pm)
    out = []
    nons = np.flatnonzero(~dag.is_sample)
    # (i)
    bad = [int(u) for u in nons if idx[u] < 0]
    if bad:
        return [Violation("not_a_grid_timepoint", f"node {bad[0]} assigned {pm[bad[0]]!r}, not one of the "
                          f"{len(tp)} timepoints", nodes=bad[:5])]
    if np.any(pm[dag.is_sample] != 0):
        out.append(Violation("sample_time_changed", "a sample node is not left at time 0 in posterior_mean"))
    idx = np.where(dag.is_sample, 0, idx)
    # (ii)
    p, c = ts.edges_parent, ts.edges_child
    viol = np.flatnonzero(idx[c] > idx[p])
    if viol.size:
        e = int(viol[0])
        out.append(Violation("child_later_than_parent", f"edge {e}: child {c[e]} at index {idx[c[e]]} "
                             f"but parent {p[e]} at index {idx[p[e]]}"))
    # (iii)
    ties = underflow = degenerate = 0
    nt = youngest_not_first = multi = False
    for u in dag.parents_first:
        if dag.is_sample[u]:
            continue
        obj, terms, norms = D.log_objective(fit, dag, u, idx, mu, eps)
        par = sorted(dag.parents[u])
        if len(par) >= 2:
            multi = True
            if len({int(idx[q]) for q in par}) >= 2:
                nt = True
                # tsdate visits a child's edges by ascending *input* time of the parent
                first = min(par, key=lambda q: (ts.nodes_time[q]))
                if idx[first] > min(idx[q] for q in par):
                    youngest_not_first = True
        if np.all(np.isnan(obj)) or np.all(np.isneginf(obj[~np.isnan(obj)])):
            degenerate += 1
            continue
        if idx[u] >= len(obj):
            continue  # later than its youngest parent: already reported by clause (ii)
        best = int(np.nanargmax(obj))
        got = int(idx[u])
        if got == best:
            continue
        if D.is_tie(obj[got], obj[best]):
            ties += 1
            continue
        if space == D.LIN and (D.linear_margin(obj, terms, norms, [got, best]) < -650
                               or np.any(np.isnan(obj))):
            underflow += 1
            continue
        kind = "root" if not dag.up[u] else ("multi_parent" if len(par) >= 2 else "single_parent")
        out.append(Violation(f"not_argmax:{kind}", f"node {u}: assigned index {got} (objective {obj[got]!r}) "
                             f"but index {best} has {obj[best]!r} (log domain, slice 0..{len(obj) - 1}, "
                             f"space={space})", node=int(u), parents=[(int(q), int(idx[q])) for q in par]))
    # (iv) returned times: assigned timepoints, raised only by the forced recursion
    rt = dts.nodes_time
    exp = pm.copy()
    for u in reversed(dag.parents_first):  # children first
        for ch in dag.children[u]:
            cand = exp[ch] + MBL
            if cand >= exp[u]:
                exp[u] = cand
    if not np.array_equal(rt, exp):
        b = int(np.flatnonzero(rt != exp)[0])
        out.append(Violation("returned_time_not_from_assignment", f"node {b}: returned {rt[b]!r}, assigned "
                             f"timepoint {pm[b]!r}, minimal raise gives {exp[b]!r}"))
    if multi:
        ctx.label("has_multi_parent_node")
    if nt:
        ctx.mark_nontrivial()
        ctx.label("nontrivial")
    if youngest_not_first:
        ctx.label("youngest_parent_not_first_visited")
    if ties:
        ctx.label("case_with_tied_node")
    if degenerate:
        ctx.label("case_with_degenerate_row")
    if np.any(rt != pm):
        ctx.label("constraint_fired")
    if ts.num_trees >= 2:
        ctx.label("trees>=2")
    if underflow and not out:
        ctx.discard("linear_underflow_at_candidate")
        return []
    return out


def describe(case):
    return dict(ts=G.ts_summary(case["ts"]), spec=case["spec"], theta=case["theta"], eps=case["eps"],
                space=case["space"], src=case["src"], retime=case["retime"])
