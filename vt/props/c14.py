"""C14 -- conditional coalescent prior moments are exact.

Enumeration (E) of all (n, k), 2 <= k <= n, n <= N against an independent reference (R):
the Markov chain of vt/oracle/coalescent_e.py in exact rationals (n <= N_exact) and the same
law in 50-digit mpmath (n <= N_mp), plus a Hypothesis pass over larger n (sampled k).
For every pair, and for both prior distributions, the stored (alpha, beta) must be the
documented moment-matched transform of the stored (mean, var).
"""

import sys

import mpmath
import numpy as np
from hypothesis import strategies as st

from tsdate import prior as tsprior

from vt.common import call, exc_key
from vt.oracle import coalescent_e as O
from vt.runner import Violation

ID = "C14"
LEVEL = "exploration"
EXHAUSTIVE = True
NO_SHRINK = True
RULE = (
    "enumeration: every (n, k) with 2 <= k <= n for n <= N_exact (exact rationals) and n <= N_mp "
    "(50-digit mpmath), both prior distributions, rows of ConditionalCoalescentTimes(0, distr).add(n, False); "
    "Hypothesis pass: larger n with ~30 drawn k (incl. 2, 3, n-2, n-1, n). non-trivial = pair with k < n "
    "(the marginalisation over remaining lineages is used); distinct by (n, k)"
)
ASSUMPTIONS = [
    "time unit: pairwise coalescence rate 1 (E[T_MRCA] = 2(1-1/n)), as in prior.py",
    "exact (non-approximate) priors only; n <= 3000 (measured worst error of the unchanged code 1.2e-12 at n=3000)",
    "reference: monophyly-conditioned jump chain in fractions / mpmath; numpy trusted",
    "the exhaustive claim covers n <= N_exact (rationals) and n <= N_mp (mpmath) of the tier only",
]

# tolerances.  Calibration on the unchanged tree (2026-09-22): worst relative error of mean/var
# against the exact oracle 5.8e-15 for n <= 40, 1.9e-14 at n = 200, 5.9e-14 at n = 1000,
# 1.2e-12 at n = 3000 (log-space accumulation over k).  Parameter round trip: worst 2.7e-15.
TOL_MOMENT = 1e-10
TOL_PARAM = 1e-12

LIMITS = {
    "quick": dict(n_exact=40, n_mp=120, hyp_lo=121, hyp_hi=1500),
    "thorough": dict(n_exact=80, n_mp=300, hyp_lo=301, hyp_hi=3000),
}


def budget(tier):
    if tier == "quick":
        return dict(examples=30, shards=4, min_nontrivial=100)
    return dict(examples=150, shards=16, min_nontrivial=1000)


def _nshards(tier):
    argv = sys.argv
    for i, a in enumerate(argv):
        if a == "--shards" and i + 1 < len(argv):
            return max(1, int(argv[i + 1]))
        if a.startswith("--shards="):
            return max(1, int(a.split("=", 1)[1]))
    return budget(tier)["shards"]


def _tasks(tier):
    lim = LIMITS[tier]
    tasks = [("exact", n, n ** 3) for n in range(2, lim["n_exact"] + 1)]
    tasks += [("mp", n, 4 * n ** 2) for n in range(2, lim["n_mp"] + 1)]
    tasks.sort(key=lambda t: -t[2])
    return tasks


def expected_pairs(tier):
    return sum(n - 1 for _, n, _ in _tasks(tier))


# ---------------------------------------------------------------------------


def _rows(n, distr):
    cc = tsprior.ConditionalCoalescentTimes(0, distr)
    cc.add(n, False)
    return np.asarray(cc[n], dtype=float)


def _rel(got, ref):
    """relative error of float `got` against mpf `ref` (mpf arithmetic)"""
    got = float(got)
    if not np.isfinite(got):
        return mpmath.inf
    ref = mpmath.mpf(ref)
    if ref == 0:
        return mpmath.mpf(0) if got == 0 else mpmath.inf
    return abs(mpmath.mpf(got) - ref) / abs(ref)


def judge_pair(n, k, distr, row, mean_ref, var_ref, level):
    """-> (violations, worst moment err, worst param err); row = (alpha, beta, mean, var) floats"""
    out = []
    case = dict(n=int(n), k=int(k), distr=distr, level=level)
    alpha, beta, mean, var = (float(x) for x in row)
    em = _rel(mean, mean_ref)
    ev = _rel(var, var_ref)
    where = "root" if k == n else "internal"
    if not em <= TOL_MOMENT:
        out.append((Violation(f"moments:mean:{where}", f"n={n} k={k} ({distr}): stored mean {mean!r}, exact "
                              f"coalescent mean {mpmath.nstr(mean_ref, 17)} (rel err {mpmath.nstr(em, 3)})",
                              n=n, k=k, distr=distr), case))
    if not ev <= TOL_MOMENT:
        out.append((Violation(f"moments:var:{where}", f"n={n} k={k} ({distr}): stored variance {var!r}, exact "
                              f"coalescent variance {mpmath.nstr(var_ref, 17)} (rel err {mpmath.nstr(ev, 3)})",
                              n=n, k=k, distr=distr), case))
    # parameters are the moment-matched transform of the STORED mean / var
    with mpmath.workdps(40):
        if not (np.isfinite(alpha) and np.isfinite(beta)):
            pm, pv = mpmath.nan, mpmath.nan
        elif distr == "lognorm":
            pm, pv = O.lognorm_moments_from_params(alpha, beta)
        else:
            pm, pv = O.gamma_moments_from_params(alpha, beta)
        epm = _rel(mean, pm) if pm == pm else mpmath.inf
        epv = _rel(var, pv) if pv == pv else mpmath.inf
    if not (epm <= TOL_PARAM and epv <= TOL_PARAM):
        out.append((Violation(f"params:{distr}", f"n={n} k={k}: (alpha, beta)=({alpha!r}, {beta!r}) give mean/var "
                              f"{mpmath.nstr(pm, 17)}/{mpmath.nstr(pv, 17)} but the row stores {mean!r}/{var!r}",
                              n=n, k=k, distr=distr), case))
    return out, max(em, ev), max(epm, epv)


def eval_n(n, ks, refs, level, ctx):
    """compare rows for total n at descendant counts ks; refs[k] = (mean, var) mpf"""
    found = []
    worst_m = mpmath.mpf(0)
    worst_p = mpmath.mpf(0)
    for distr in ("lognorm", "gamma"):
        status, rows = call(_rows, n, distr)
        if status != "ok":
            found.append((Violation("add_raised:" + exc_key(rows), f"ConditionalCoalescentTimes(0, {distr!r})"
                                    f".add({n}, False) raised {rows!r}"), dict(n=n, k=2, distr=distr, level=level)))
            continue
        if rows.shape != (n + 1, 4):
            found.append((Violation("rows:shape", f"n={n}: table has shape {rows.shape}, expected {(n + 1, 4)}"),
                          dict(n=n, k=2, distr=distr, level=level)))
            continue
        for k in ks:
            vs, wm, wp = judge_pair(n, k, distr, rows[k], refs[k][0], refs[k][1], level)
            found += vs
            worst_m = max(worst_m, wm)
            worst_p = max(worst_p, wp)
    return found, worst_m, worst_p


def _refs(level, n, ks):
    if level == "exact":
        with mpmath.workdps(50):
            return {k: tuple(O.frac_to_mpf(x) for x in O.moments_exact(n, k)) for k in ks}
    return O.moments_mp(n, ks, dps=50)


def extra(ctx, tier, shard):
    O.self_test(14)  # closed form == chain; a failure here is a harness error
    S = _nshards(tier)
    worst_m = 0.0
    worst_p = 0.0
    pairs = 0
    with mpmath.workdps(50):
        for idx, (level, n, _cost) in enumerate(_tasks(tier)):
            if idx % S != shard:
                continue
            if ctx.out_of_time():
                ctx.budget_exhausted = True
                break
            ks = list(range(2, n + 1))
            refs = _refs(level, n, ks)
            found, wm, wp = eval_n(n, ks, refs, level, ctx)
            for v, case in found:
                ctx.violation(v, case=case)
            worst_m = max(worst_m, float(wm))
            worst_p = max(worst_p, float(wp))
            pairs += len(ks)
            ctx.evaluations += len(ks)
            ctx.label(f"enum:{level}")
            for k in ks:
                if k < n:
                    ctx.add_nontrivial((level, n, k))
            if n in (13, 40, 80, 120):
                ctx.sample(dict(level=level, n=n, pairs=len(ks), worst_rel_err=float(wm)))
            if level == "exact":
                O.moments_exact.cache_clear()
    ctx.extra["enumerated_pairs"] = pairs
    ctx.extra["worst_moment_rel_err"] = [worst_m]
    ctx.extra["worst_param_rel_err"] = [worst_p]


def replay_extra(case, ctx):
    return check(dict(n=case["n"], ks=[case["k"]], level=case.get("level", "mp")), ctx)


def finish(ctx, tier):
    lim = LIMITS[tier]
    exp = expected_pairs(tier)
    got = ctx.extra.get("enumerated_pairs", 0)
    ctx.extra["expected_pairs"] = exp
    ctx.extra["exhaustive"] = bool(got == exp and not ctx.budget_exhausted)
    ctx.extra["exhaustive_bound"] = dict(exact_rationals_n_max=lim["n_exact"], mpmath_n_max=lim["n_mp"])
    for key in ("worst_moment_rel_err", "worst_param_rel_err", "worst_moment_rel_err_sampled"):
        v = ctx.extra.get(key)
        if isinstance(v, list) and v:
            ctx.extra[key] = max(v)
    if got != exp and not ctx.budget_exhausted:
        ctx.harness_errors.append(f"enumeration incomplete: {got} of {exp} pairs")


# ---------------------------------------------------------------------------
# Hypothesis pass: larger n, sampled k
# ---------------------------------------------------------------------------


@st.composite
def strategy_(draw, tier):
    lim = LIMITS[tier]
    style = draw(st.sampled_from(["any", "any", "pow2ish", "top"]))
    if style == "pow2ish":
        n = 2 ** draw(st.integers(7, 11)) + draw(st.integers(-2, 2))
        n = min(max(n, lim["hyp_lo"]), lim["hyp_hi"])
    elif style == "top":
        n = lim["hyp_hi"] - draw(st.integers(0, 50))
    else:
        n = draw(st.integers(lim["hyp_lo"], lim["hyp_hi"]))
    ks = draw(st.lists(st.integers(2, n), min_size=8, max_size=24, unique=True))
    ks = sorted(set(ks) | {2, 3, n // 2, n - 2, n - 1, n})
    return dict(n=n, ks=ks, level="mp")


def strategy(tier):
    return strategy_(tier)


def check(case, ctx):
    n = int(case["n"])
    # cases recorded by extra() carry a single "k" (the runner replays them through check())
    ks = [int(k) for k in case["ks"]] if "ks" in case else [int(case["k"])]
    level = case.get("level", "mp")
    if level == "exact" and n > 120:
        level = "mp"
    ctx.label(f"hyp:n<={10 ** len(str(n))}")
    with mpmath.workdps(50):
        refs = _refs(level, n, ks)
        found, wm, wp = eval_n(n, ks, refs, level, ctx)
    if any(k < n for k in ks):
        ctx.mark_nontrivial()
    prev = ctx.extra.get("worst_moment_rel_err_sampled", [0.0])
    ctx.extra["worst_moment_rel_err_sampled"] = [max(prev[0], float(wm))]
    return [v for v, _ in found]


def describe(case):
    ks = list(case["ks"]) if "ks" in case else [case["k"]]
    return dict(n=case["n"], ks_head=ks[:6], n_ks=len(ks))
