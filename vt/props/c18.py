"""C18 — EP moment updates respect support and match the true tilted moments.

Each case draws one *family* of EP update (both ends free phased / unphased, fixed child,
fixed child at time zero, fixed parent, fixed co-parent of an unphased block, twin block,
both ends fixed) and a parameter vector from the DESIGN box, then exercises every function
of that family in tsdate/approx.py: the node `*_moments`, its `*_projection` wrapper, the
`mutation_*_moments` and its projection wrapper (26 functions in total).

Oracle: (I) skip <=> NaN logconst + unchanged parameters (mutation wrappers: NaN phase + NaN
parameters); otherwise finite, variance > 0, mean in the support, phase in [0,1], and the
projected gamma carries exactly the returned mean/variance; (R) means against 1-D quadrature
of the docstring density (vt/oracle/tilted_f.py: elementary gamma integral over one variable,
mode-split Gauss-Legendre with a self-estimated error); closed forms at 1e-12.
"""

import math

import numpy as np
from hypothesis import strategies as st

from tsdate import approx

from vt.common import call, exc_key
from vt.oracle import tilted_f as Q
from vt.runner import Violation

ID = "C18"
LEVEL = "exploration"
RULE = (
    "case = (family of EP update, cavity shapes 10^U(-0.3,3), cavity means 10^U(-3,7) (child/parent "
    "ratio 10^U(-4,2)), y in {0..5} or {0..300} optionally damped by delta in [0.1,1], mu*mean 10^U(-4,4), "
    "fixed age / free mean 10^U(-3,3)); each case runs the node moments, mutation moments and both "
    "projection wrappers of the family; non-trivial = not skipped, compared with quadrature or a closed "
    "form, and >= 1 decade away from the test-suite's four vectors in some coordinate; distinct by case digest"
)
ASSUMPTIONS = [
    "numpy/scipy trusted; reference means by own quadrature (vt/oracle/tilted_f.py), cross-checked against "
    "mpmath at development time, self-estimated error <= 1e-8 or the case is discarded",
    "variances and log-normalisers are only checked for finiteness/sign (the statement speaks of means)",
    "a case whose moments are invalid and whose wrapper skips is a legal outcome (counted as label skip:*); "
    "min_nontrivial guards against everything being skipped",
    "flat parent cavity (shape 1, rate 0), which EP uses in its first sweep, is included as a labelled class",
]

# ---------------------------------------------------------------------------------------
# Tolerances (DESIGN §4/§5-C18) and calibration on the unchanged tree
#
# Calibration (unchanged tree, 3 x 70 000 random cases from this box + 30 000 + a direct scan
# of the sideways ridge; oracle self-error <= 1e-13 throughout, 0 oracle discards):
#   * no exception, no support failure, no skip inconsistency; wrappers skipped in 0.1 % of
#     cases (mutation_unphased / leafward: non-positive variance from cancellation);
#   * closed forms: max rel err 3.4e-15;
#   * medians of the relative error of the means, per function: 5e-9 ... 6e-5 (all << 1e-3);
#   * the Laplace error of every function is, to a good approximation, an envelope in the
#     smallest cavity shape `a` of the update (worst over everything else):
#         a in   [0.5,0.55) [0.6,0.7) [0.8,1)  [1,1.5) [1.5,2) [2,5)  [5,20)
#         pair     0.20*     0.073    0.050    0.036   0.018   0.015  0.008   (* both shapes ~0.55)
#         mutation_sideways / mutation_unphased
#                  0.113     0.092    0.068    0.051   0.030   0.020  0.005
#     and sideways_moments has a ridge at z = t_i (mu + b_j) ~ y + a_j whose height (scanned
#     directly, y <= 300) is 0.129 / 0.099 / 0.078 / 0.063 / 0.052 / 0.040 / 0.028 at
#     a_j = 0.7 / 0.8 / 0.9 / 1.0 / 1.1 / 1.25 / 1.5.
#   DESIGN's step thresholds (5 % for shapes >= 1, 10 % below) are therefore exceeded on the
#   unchanged tree for 1 <= a < 1.3 (up to 6.3 %) and a < 0.85 (up to 20 %).  Per the tolerance
#   policy the *domain* of the accuracy clause is narrowed, not the tolerance widened:
#       a >= 1.3        : 5 %   (observed max 3.9 %: margin 1.28)
#       0.85 <= a < 1.3 : 10 %  (observed / scanned max 8.8 %)
#       a < 0.85        : accuracy not asserted (about 15 % of cases; label
#                         accuracy_not_asserted(shape<0.85)); all other clauses still apply.
#   * unphased_moments computes the parent mean as b/t - z E[t_j]; when kappa = (b/t)/E[t_i] is
#     large the Laplace error of E[t_j] is amplified by ~(kappa-1): rel err up to 12 (1200 %)
#     in the box, 0.3 % of unphased cases above 100 %.  This is reported under its own key
#     (mean_error:unphased_moments.parent:cancellation, kappa > 2) and listed as a finding;
#     for kappa <= 2 the observed max is 2.1 % (5 % tier) / 4.6 % (10 % tier).
# ---------------------------------------------------------------------------------------
TOL_CASE_GE1 = 0.05  # every cavity shape of the update >= SHAPE_5PCT
TOL_CASE_LT1 = 0.10  # smallest cavity shape in [SHAPE_MIN_ACC, SHAPE_5PCT)
SHAPE_5PCT = 1.3
SHAPE_MIN_ACC = 0.85  # below: accuracy not asserted (support/finite/skip clauses still are)
CANCEL = 2.0  # unphased parent mean: (s/t) / E[t_i] above this = cancellation regime (finding)
TOL_MEDIAN = 1e-3  # run-level, per function
TOL_CLOSED = 1e-12
TOL_PROJ = 1e-9  # projected gamma reproduces the returned mean / variance (pure arithmetic)
ORACLE_ERR = 1e-8
CAP = 4000  # per shard, per function: bound on the error lists carried to finish()

FAMILIES = ["pair", "unphased", "rootward", "rootward0", "leafward", "sideways", "twin", "fixed"]
_TEST_VECTOR = dict(a_i=2.0, b_i=0.0005, a_j=1.5, b_j=0.005, mu=0.001)


def budget(tier):
    if tier == "quick":
        return dict(examples=1000, shards=4, min_nontrivial=1500)
    return dict(examples=20000, shards=16, min_nontrivial=40000)


_CORNERS = [0.0, 0.0909, 0.125, 0.5, 1.0]  # shape 0.5 / ~1.0 / ~1.3 / 22 / 1000, ends of every range


@st.composite
def strategy_(draw, tier):
    fam = draw(st.sampled_from(FAMILIES[:6] * 3 + FAMILIES[6:]))
    # The box is sampled log-uniformly from a drawn seed: Hypothesis' own float / integer
    # strategies pile mass on 0, 1 and tiny values (35-50 % of cases had a shape of exactly 0.5 in
    # first runs, which also distorts the run-level median clause).  Seeds whose stream says so (1 in 8)
    # give a corner of the box chosen by Hypothesis instead; measured share of corner cases is ~50 %
    # because Hypothesis concentrates on few seeds and never repeats a choice sequence.  The derived
    # vector is stored in the case itself; only box=uniform cases feed the run-level medians.
    seed = draw(st.integers(0, 2**32 - 1))
    rng = np.random.default_rng([seed, 18])
    if rng.random() < 0.125:  # (decided by the seed's stream: Hypothesis favours "round" seeds)
        u = [draw(st.sampled_from(_CORNERS)) for _ in range(6)]
        y = draw(st.sampled_from([0, 1, 2, 5, 50, 300]))
        damp = draw(st.sampled_from([1.0, 0.1]))
        flat = draw(st.sampled_from([False, False, False, True]))
        kind = "corner"
    else:
        u = [float(x) for x in rng.uniform(0.0, 1.0, 6)]
        y = int(rng.integers(0, 6)) if rng.random() < 0.5 else int(rng.integers(0, 301))
        damp = float(rng.choice([1.0, 1.0, 1.0, 1.0, 0.1, 0.37, 0.9]))
        flat = bool(rng.random() < 0.1)
        kind = "uniform"
    return dict(fam=fam, u=u, y=y, damp=damp, flat=flat, kind=kind)


def strategy(tier):
    return strategy_(tier)


def _lu(u, lo, hi):
    return 10.0 ** (lo + (hi - lo) * u)


def params(case):
    u = case["u"]
    a_i = _lu(u[0], -0.3, 3.0)
    a_j = _lu(u[1], -0.3, 3.0)
    mean_i = _lu(u[2], -3.0, 7.0)
    mean_j = min(max(mean_i * _lu(u[3], -4.0, 2.0), 1e-3), 1e7)
    mu = _lu(u[4], -4.0, 4.0) / mean_i
    rel = _lu(u[5], -3.0, 3.0)
    b_i = a_i / mean_i
    b_j = a_j / mean_j
    if case["flat"] and case["fam"] in ("pair", "rootward", "rootward0", "twin"):
        a_i, b_i = 1.0, 0.0  # EP's first sweep: parent posterior still (0, 0)
    d = case["damp"]
    return dict(a_i=float(a_i), b_i=float(b_i), a_j=float(a_j), b_j=float(b_j),
                y=float(case["y"] * d), mu=float(mu * d), rel=float(rel),
                mean_i=float(mean_i), mean_j=float(mean_j))


def describe(case):
    p = params(case)
    return dict(fam=case["fam"], **{k: float(f"{v:.4g}") for k, v in p.items()})


# ---------------------------------------------------------------------------------------
# helpers
# ---------------------------------------------------------------------------------------


def _rel(x, ref):
    return abs(x - ref) / abs(ref) if ref != 0 else abs(x)


def _nat(shape, rate):
    return np.array([shape - 1.0, rate], dtype=np.float64)


def _lik(p):
    return np.array([p["y"], p["mu"]], dtype=np.float64)


def _valid(mn, va):
    return bool(np.isfinite(mn) and np.isfinite(va) and mn > 0.0 and va > 0.0)


class _Run:
    """collects violations of one case"""

    def __init__(self, ctx, p):
        self.ctx = ctx
        self.p = p
        self.out = []
        self.compared = False
        self.tol = TOL_CASE_GE1  # None: outside the calibrated accuracy domain
        self.uniform = True  # log-uniform draw from the box (contributes to the run-level medians)

    def bad(self, key, msg):
        self.out.append(Violation(key, msg + f" | params={ {k: self.p[k] for k in ('a_i','b_i','a_j','b_j','y','mu','rel')} }"))

    def fn(self, name, *args):
        status, res = call(getattr(approx, name), *args)
        if status != "ok":
            self.bad(f"raised:{name}:{exc_key(res)}", f"{name}{args} raised {res!r}")
            return None
        return res

    def record(self, name, got, ref, suffix=""):
        """per-case tolerance on a mean + accumulation for the run-level median clause"""
        e = _rel(got, ref)
        if self.tol is None:
            return
        lst = self.ctx.extra.setdefault("err:" + name, [])
        if len(lst) < CAP and self.uniform:
            lst.append(float(e))
        self.compared = True
        if not e <= self.tol:
            self.bad(f"mean_error:{name}{suffix}", f"{name}: returned mean {got!r}, quadrature {ref!r}, rel err {e:.3g} > {self.tol}")
        elif e > 0.01:
            self.ctx.label(f"err>1%:{name}")

    def closed(self, name, got, ref):
        e = max(_rel(g, r) for g, r in zip(got, ref))
        self.compared = True
        self.ctx.extra["closed_max_rel"] = [max(e, (self.ctx.extra.get("closed_max_rel") or [0.0])[0])]
        if not e <= TOL_CLOSED:
            self.bad(f"closed_form:{name}", f"{name}: returned {got!r}, closed form {ref!r}, rel err {e:.3g}")

    # -- projection wrappers -----------------------------------------------------------
    def node_projection(self, name, res, inputs, moments):
        """res = (logconst, proj_1[, proj_2]); inputs = natural parameter arrays passed in;
        moments = [(mn, va), ...] from the *_moments function (None if that raised)."""
        if res is None or moments is None:
            return None
        logc, projs = res[0], [np.asarray(x) for x in res[1:]]
        valid = all(_valid(mn, va) for mn, va in moments)
        unchanged = all(np.array_equal(a, b) for a, b in zip(projs, inputs))
        if not valid:
            if not (math.isnan(logc) and unchanged):
                self.bad(f"skip_inconsistent:{name}", f"{name}: moments {moments} are invalid but the wrapper returned "
                         f"logconst={logc!r}, unchanged={unchanged}")
            self.ctx.label(f"skip:{name}")
            return False
        if math.isnan(logc):
            if unchanged:
                self.bad(f"skip_inconsistent:{name}", f"{name}: moments {moments} are valid but the wrapper skipped")
            else:
                self.bad(f"nan_logconst:{name}", f"{name}: NaN logconst with changed parameters (moments {moments})")
            return False
        for (mn, va), pr in zip(moments, projs):
            s, r = pr[0] + 1.0, pr[1]
            if not (np.isfinite(s) and np.isfinite(r) and s > 0 and r > 0):
                self.bad(f"projection_invalid:{name}", f"{name}: projected natural parameters {pr!r}")
            elif _rel(s / r, mn) > TOL_PROJ or _rel(s / r**2, va) > TOL_PROJ:
                self.bad(f"projection_mismatch:{name}", f"{name}: projected gamma mean/var {(s / r, s / r**2)!r} != moments {(mn, va)!r}")
        return True

    def mut_projection(self, name, res, mom, pr_expected):
        """res = (phase, proj); mom = (mn, va); pr_expected: phase the wrapper must report"""
        if res is None or mom is None:
            return None
        ph, pr = res[0], np.asarray(res[1])
        mn, va = mom
        valid = _valid(mn, va) and (0.0 <= pr_expected <= 1.0)
        if not valid:
            if not (math.isnan(ph) and np.all(np.isnan(pr))):
                self.bad(f"skip_inconsistent:{name}", f"{name}: moments {(pr_expected, mn, va)} invalid but wrapper returned {ph!r}, {pr!r}")
            self.ctx.label(f"skip:{name}")
            return False
        if math.isnan(ph) or np.any(np.isnan(pr)):
            self.bad(f"skip_inconsistent:{name}", f"{name}: moments {(pr_expected, mn, va)} valid but wrapper skipped")
            return False
        if not (0.0 <= ph <= 1.0):
            self.bad(f"phase_out_of_range:{name}", f"{name}: phase {ph!r}")
        if ph != pr_expected:
            self.bad(f"phase_mismatch:{name}", f"{name}: phase {ph!r} != {pr_expected!r}")
        s, r = pr[0] + 1.0, pr[1]
        if not (np.isfinite(s) and np.isfinite(r) and s > 0 and r > 0):
            self.bad(f"projection_invalid:{name}", f"{name}: projected natural parameters {pr!r}")
        elif _rel(s / r, mn) > TOL_PROJ or _rel(s / r**2, va) > TOL_PROJ:
            self.bad(f"projection_mismatch:{name}", f"{name}: projected gamma mean/var {(s / r, s / r**2)!r} != moments {(mn, va)!r}")
        return True

    def support(self, name, cond, msg):
        if not cond:
            self.bad(f"support:{name}", f"{name}: {msg}")


def _oracle(ctx, f, *args):
    try:
        o = f(*args)
    except Q.OracleUnreliable as e:
        ctx.discard("oracle_unreliable:" + str(e))
        return None
    if not o["err"] <= ORACLE_ERR:
        ctx.discard("oracle_unreliable:self_error")
        return None
    return o


# ---------------------------------------------------------------------------------------
# families
# ---------------------------------------------------------------------------------------


def fam_pair(R, p, unphased):
    args = (p["a_i"], p["b_i"], p["a_j"], p["b_j"], p["y"], p["mu"])
    n_node = "unphased_moments" if unphased else "moments"
    n_proj = "unphased_projection" if unphased else "gamma_projection"
    n_mut = "mutation_unphased_moments" if unphased else "mutation_moments"
    n_mproj = "mutation_unphased_projection" if unphased else "mutation_gamma_projection"
    nat = (_nat(p["a_i"], p["b_i"]), _nat(p["a_j"], p["b_j"]), _lik(p))
    node = R.fn(n_node, *args)
    proj = R.fn(n_proj, *nat)
    mut = R.fn(n_mut, *args)
    mproj = R.fn(n_mproj, *nat)
    o = _oracle(R.ctx, Q.unphased_pair if unphased else Q.phased_pair, *args)
    ok_node = ok_mut = None
    if node is not None:
        logl, mn_i, va_i, mn_j, va_j = node
        ok_node = R.node_projection(n_proj, proj, nat[:2], [(mn_i, va_i), (mn_j, va_j)])
        if ok_node:
            if unphased:
                R.support(n_node, mn_i > 0 and mn_j > 0, f"E t_i={mn_i!r}, E t_j={mn_j!r} not both positive")
            else:
                R.support(n_node, mn_i > mn_j > 0, f"need E t_i > E t_j > 0, got E t_i={mn_i!r}, E t_j={mn_j!r}")
            if o is not None:
                kappa = (args[0] + args[2] + args[4]) / (args[5] + args[1]) / o["mn_i"]
                cancel = unphased and kappa > CANCEL
                if cancel:
                    R.ctx.label("unphased_parent_cancellation")
                R.record(n_node + ".parent", mn_i, o["mn_i"], ":cancellation" if cancel else "")
                R.record(n_node + ".child", mn_j, o["mn_j"])
    if mut is not None:
        if unphased:
            pr_m, mn_m, va_m = mut
        else:
            (mn_m, va_m), pr_m = mut, 1.0
        ok_mut = R.mut_projection(n_mproj, mproj, (mn_m, va_m), pr_m)
        if ok_mut:
            if ok_node:
                # the mutation sits on one of the two branches: its mean cannot exceed the older end
                if unphased:
                    R.support(n_mut, 0 < mn_m < max(node[1], node[3]),
                              f"E t_m={mn_m!r} not in (0, max(E t_i, E t_j)) = (0, {max(node[1], node[3])!r})")
                else:
                    R.support(n_mut, node[3] < mn_m < node[1],
                              f"E t_m={mn_m!r} not between E t_j={node[3]!r} and E t_i={node[1]!r}")
            if o is not None:
                if unphased:
                    R.support(n_mut, 0 < mn_m < max(o["mn_i"], o["mn_j"]) * (1 + TOL_CASE_LT1),
                              f"E t_m={mn_m!r} above both reference end means {o['mn_i']!r}, {o['mn_j']!r}")
                else:
                    R.support(n_mut, R.tol is None or o["mn_j"] * (1 - R.tol) < mn_m < o["mn_i"] * (1 + R.tol),
                              f"E t_m={mn_m!r} outside reference ends ({o['mn_j']!r}, {o['mn_i']!r})")
                R.record(n_mut, mn_m, o["mn_m"])
    return ok_node, ok_mut


def fam_rootward(R, p, zero):
    t_j = 0.0 if zero else p["rel"] * (p["mean_i"] if p["b_i"] > 0 else 1.0 / p["mu"])
    args = (float(t_j), p["a_i"], p["b_i"], p["y"], p["mu"])
    nat = (float(t_j), _nat(p["a_i"], p["b_i"]), _lik(p))
    node = R.fn("rootward_moments", *args)
    proj = R.fn("rootward_projection", *nat)
    mut = R.fn("mutation_rootward_moments", *args)
    mproj = R.fn("mutation_rootward_projection", *nat)
    s, r = p["a_i"] + p["y"], p["mu"] + p["b_i"]
    o = None if zero else _oracle(R.ctx, Q.rootward, *args)
    ok_node = ok_mut = None
    if node is not None:
        logl, mn_i, va_i = node
        ok_node = R.node_projection("rootward_projection", proj, nat[1:2], [(mn_i, va_i)])
        if ok_node:
            R.support("rootward_moments", mn_i > t_j, f"need E t_i > t_j={t_j!r}, got {mn_i!r}")
            if zero:
                R.closed("rootward_moments(t_j=0)", (mn_i, va_i), Q.gamma_closed(s, r))
            elif o is not None:
                R.record("rootward_moments", mn_i, o["mn_i"])
    if mut is not None:
        mn_m, va_m = mut
        ok_mut = R.mut_projection("mutation_rootward_projection", mproj, (mn_m, va_m), 1.0)
        if ok_mut:
            if ok_node:
                R.support("mutation_rootward_moments", t_j < mn_m < node[1], f"E t_m={mn_m!r} not in (t_j, E t_i)=({t_j!r},{node[1]!r})")
            else:
                R.support("mutation_rootward_moments", t_j < mn_m, f"E t_m={mn_m!r} <= t_j={t_j!r}")
            if zero:
                R.closed("mutation_rootward_moments(t_j=0)", (mn_m, va_m), Q.uniform_below_gamma(s, r))
            elif o is not None:
                R.record("mutation_rootward_moments", mn_m, o["mn_m"])
    return ok_node, ok_mut


def fam_leafward(R, p):
    t_i = p["rel"] * p["mean_j"]
    mu = p["mu"] * p["mean_i"] / p["mean_j"]  # mu * (free mean) spans 1e-4..1e4
    args = (float(t_i), p["a_j"], p["b_j"], p["y"], float(mu))
    nat = (float(t_i), _nat(p["a_j"], p["b_j"]), np.array([p["y"], mu]))
    node = R.fn("leafward_moments", *args)
    proj = R.fn("leafward_projection", *nat)
    mut = R.fn("mutation_leafward_moments", *args)
    mproj = R.fn("mutation_leafward_projection", *nat)
    o = _oracle(R.ctx, Q.leafward, *args)
    ok_node = ok_mut = None
    if node is not None:
        logl, mn_j, va_j = node
        ok_node = R.node_projection("leafward_projection", proj, nat[1:2], [(mn_j, va_j)])
        if ok_node:
            R.support("leafward_moments", 0 < mn_j < t_i, f"need 0 < E t_j < t_i={t_i!r}, got {mn_j!r}")
            if o is not None:
                R.record("leafward_moments", mn_j, o["mn_j"])
    if mut is not None:
        mn_m, va_m = mut
        ok_mut = R.mut_projection("mutation_leafward_projection", mproj, (mn_m, va_m), 1.0)
        if ok_mut:
            lo = node[1] if ok_node else 0.0
            R.support("mutation_leafward_moments", lo < mn_m < t_i, f"E t_m={mn_m!r} not in ({lo!r}, t_i={t_i!r})")
            if o is not None:
                R.record("mutation_leafward_moments", mn_m, o["mn_m"])
    return ok_node, ok_mut


def fam_sideways(R, p):
    t_i = p["rel"] * p["mean_j"]
    mu = p["mu"] * p["mean_i"] / p["mean_j"]
    args = (float(t_i), p["a_j"], p["b_j"], p["y"], float(mu))
    nat = (float(t_i), _nat(p["a_j"], p["b_j"]), np.array([p["y"], mu]))
    node = R.fn("sideways_moments", *args)
    proj = R.fn("sideways_projection", *nat)
    mut = R.fn("mutation_sideways_moments", *args)
    mproj = R.fn("mutation_sideways_projection", *nat)
    o = _oracle(R.ctx, Q.sideways, *args)
    ok_node = ok_mut = None
    if node is not None:
        logl, mn_j, va_j = node
        ok_node = R.node_projection("sideways_projection", proj, nat[1:2], [(mn_j, va_j)])
        if ok_node:
            R.support("sideways_moments", mn_j > 0, f"need E t_j > 0, got {mn_j!r}")
            if o is not None:
                R.record("sideways_moments", mn_j, o["mn_j"])
    if mut is not None:
        pr_m, mn_m, va_m = mut
        ok_mut = R.mut_projection("mutation_sideways_projection", mproj, (mn_m, va_m), pr_m)
        if ok_mut:
            hi = max(t_i, node[1]) if ok_node else math.inf
            R.support("mutation_sideways_moments", 0 < mn_m < hi, f"E t_m={mn_m!r} not in (0, max(t_i, E t_j)={hi!r})")
            if o is not None:
                R.record("mutation_sideways_moments", mn_m, o["mn_m"])
    return ok_node, ok_mut


def fam_twin(R, p):
    args = (p["a_i"], p["b_i"], p["y"], p["mu"])
    nat = (_nat(p["a_i"], p["b_i"]), _lik(p))
    node = R.fn("twin_moments", *args)
    proj = R.fn("twin_projection", *nat)
    mut = R.fn("mutation_twin_moments", *args)
    mproj = R.fn("mutation_twin_projection", *nat)
    s, r = p["a_i"] + p["y"], p["b_i"] + 2.0 * p["mu"]
    ok_node = ok_mut = None
    if node is not None:
        logl, mn_i, va_i = node
        ok_node = R.node_projection("twin_projection", proj, nat[:1], [(mn_i, va_i)])
        if ok_node:
            R.support("twin_moments", mn_i > 0, f"E t_i={mn_i!r}")
            R.closed("twin_moments", (mn_i, va_i), Q.gamma_closed(s, r))
    if mut is not None:
        pr_m, mn_m, va_m = mut
        ok_mut = R.mut_projection("mutation_twin_projection", mproj, (mn_m, va_m), pr_m)
        if ok_mut:
            R.support("mutation_twin_moments", 0 < mn_m < s / r, f"E t_m={mn_m!r} not in (0, E t_i={s / r!r})")
            R.closed("mutation_twin_moments", (pr_m, mn_m, va_m), (0.5,) + Q.uniform_below_gamma(s, r))
    return ok_node, ok_mut


def fam_fixed(R, p):
    t_i = p["mean_i"]
    t_j = p["mean_j"] if p["mean_j"] < t_i else t_i * 0.5
    # phased edge between two fixed nodes (t_i > t_j >= 0)
    for tj in (float(t_j), 0.0):
        mom = R.fn("mutation_edge_moments", float(t_i), tj)
        mproj = R.fn("mutation_edge_projection", float(t_i), tj)
        if mom is not None and R.mut_projection("mutation_edge_projection", mproj, mom, 1.0):
            R.support("mutation_edge_moments", tj < mom[0] < t_i, f"E t_m={mom[0]!r} not in ({tj!r},{t_i!r})")
            R.closed("mutation_edge_moments", mom, Q.edge_fixed(t_i, tj))
    # unphased block between two fixed parents (any order)
    t_k = float(p["mean_j"])
    mom = R.fn("mutation_block_moments", float(t_i), t_k)
    mproj = R.fn("mutation_block_projection", float(t_i), t_k)
    ok = None
    if mom is not None:
        ok = R.mut_projection("mutation_block_projection", mproj, mom[1:], mom[0])
        if ok:
            R.support("mutation_block_moments", 0 < mom[1] < max(t_i, t_k), f"E t_m={mom[1]!r} not in (0,{max(t_i, t_k)!r})")
            R.closed("mutation_block_moments", mom, Q.block_fixed(t_i, t_k))
    return ok, ok


def _far_from_test_vectors(p):
    return any(abs(math.log10(p[k] / v)) >= 1.0 for k, v in _TEST_VECTOR.items() if p[k] > 0) or p["y"] > 3


def check(case, ctx):
    if case is None:  # replay of a run-level (median) clause: nothing to re-run on a single case
        return []
    fam = case["fam"]
    p = params(case)
    R = _Run(ctx, p)
    R.uniform = case.get("kind", "uniform") == "uniform"
    shapes = {"pair": ("a_i", "a_j"), "unphased": ("a_i", "a_j"), "rootward": ("a_i",), "rootward0": ("a_i",),
              "leafward": ("a_j",), "sideways": ("a_j",), "twin": ("a_i",), "fixed": ()}[fam]
    smin = min([p[k] for k in shapes] + [math.inf])
    R.tol = None if smin < SHAPE_MIN_ACC else (TOL_CASE_LT1 if smin < SHAPE_5PCT else TOL_CASE_GE1)
    ctx.label("fam=" + fam, "box=" + case.get("kind", "uniform"), {None: "accuracy_not_asserted(shape<0.85)", TOL_CASE_LT1: "tol=10%(shape<1.3)", TOL_CASE_GE1: "tol=5%"}[R.tol],
              "y=0" if p["y"] == 0 else ("y<=5" if p["y"] <= 5 else "y>5"),
              "y_fractional" if p["y"] != int(p["y"]) else "y_integer")
    if p["b_i"] == 0.0:
        ctx.label("flat_parent_cavity")
    if fam in ("pair", "unphased") and p["mean_j"] > p["mean_i"]:
        ctx.label("child_cavity_older_than_parent")
    if fam == "pair":
        ok = fam_pair(R, p, False)
    elif fam == "unphased":
        ok = fam_pair(R, p, True)
    elif fam == "rootward":
        ok = fam_rootward(R, p, False)
    elif fam == "rootward0":
        ok = fam_rootward(R, p, True)
    elif fam == "leafward":
        ok = fam_leafward(R, p)
    elif fam == "sideways":
        ok = fam_sideways(R, p)
    elif fam == "twin":
        ok = fam_twin(R, p)
    else:
        ok = fam_fixed(R, p)
    if ok[0] and ok[1]:
        ctx.label("both_updates_valid")
    if R.compared and (ok[0] or ok[1]) and _far_from_test_vectors(p):
        ctx.mark_nontrivial()
    return R.out


def finish(ctx, tier):
    """run-level clause: median relative error of each function's means < 1e-3, over the
    log-uniformly drawn cases inside the accuracy domain"""
    acc = {}
    for k in sorted(k for k in ctx.extra if k.startswith("err:")):
        e = np.sort(np.asarray(ctx.extra.pop(k), dtype=float))
        name = k[4:]
        if e.size == 0:
            continue
        med = float(np.median(e))
        acc[name] = dict(n=int(e.size), median=med, p99=float(e[int(0.99 * (e.size - 1))]), max=float(e[-1]))
        if e.size >= 30 and not med < TOL_MEDIAN:
            ctx.violation(Violation(f"median_error:{name}", f"median relative error of {name} over {e.size} cases is {med:.3g} >= {TOL_MEDIAN}"))
    ctx.extra["accuracy"] = acc
    cm = ctx.extra.pop("closed_max_rel", None)
    if cm:
        ctx.extra["closed_form_max_rel_err"] = float(max(cm))
