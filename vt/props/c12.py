"""C12 — linear and logarithmic probability spaces agree.

Oracle (M/differential): the same input and options are run with probability_space="linear"
and "logarithmic" (a fresh prior object each time: BeliefPropagation converts the prior it is
given in place). When the linear run neither under- nor overflows,

  inside_outside: returned node times, mn, vr, posterior rows agree to 1e-9 relative
                  (absolute floor 1e-290 on posterior entries), log(lik) vs loglik to 1e-9;
  maximization:   same grid indices, with the tie rule (first differing node of a
                  parents-first walk, objective recomputed from both fits' inside rows with
                  scipy.stats.poisson; within 1e-9 -> `numerical tie`), node times, likelihood.

Domain detection (the statement's "whenever the linear-space computation neither underflows
nor overflows"): a *mismatch or a failure of the linear run* is classified out-of-domain
(discarded, counted) only when there is positive evidence that linear space lost information:
an entry of the linear fit's inside/outside/normalisers that is 0, subnormal-small (<1e-290),
inf or NaN where the logarithmic fit holds a finite value below -600 / above 600 (or, if the
linear run raised, such extreme finite values in the logarithmic fit). Agreement is counted as
a pass regardless; a disagreement without such evidence is a violation. The marginal
likelihood is compared whenever the linear one is a normal positive float; a 0/inf/NaN
linear likelihood is accepted only if |loglik| > 600.

Calibration (unchanged tree, 5 quick runs = 7 200 cases, label histograms `maxerr*` /
`maxerr_lossy*` in the evidence): where linear space lost nothing the worst relative difference
is in the (1e-13, 1e-12] bucket (one probe case 1.2e-11 on a posterior entry); where it lost
information but the outputs still agreed, up to 3e-10 (likelihood). 1.0-1.5 % of the cases are
discarded as out-of-domain, 0-0.1 % as numerical ties. The 1e-9 tolerance leaves a x100 margin.
"""

import numpy as np
from hypothesis import strategies as st

import tsdate

from vt.common import call, exc_key, node_metadata_mn_vr
from vt.gen import discrete_d2 as D
from vt.gen import ts as G
from vt.runner import Violation

ID = "C12"
LEVEL = "exploration"
RULE = (
    "cases = (contemporaneous single-root tree sequence, n <= 10, <= 60 trees, incl. polytomies; "
    "method in {inside_outside, maximization}; prior spec incl. user grids whose far cells have "
    "exactly zero prior; theta; eps); non-trivial = >= 2 trees, >= 3 mutations and some inside entry "
    "outside the time-0 column is exactly 0 in linear space and -inf in logarithmic space (the "
    "-inf conventions are exercised); distinct by SHA-1 of the case"
)
ASSUMPTIONS = [
    "numpy / scipy.stats.poisson / tskit trusted",
    "out-of-domain (linear under/overflow) is recognised from the two fits as described in the "
    "module docstring; such cases are discarded and counted, never passed",
    "maximization: objective values within 1e-9 are numerical ties (case discarded, counted)",
]
TOL = 1e-9
FLOOR = 1e-290
EXTREME = 600.0


def budget(tier):
    if tier == "quick":
        return dict(examples=300, shards=4)
    return dict(examples=4000, shards=16)


@st.composite
def strategy_(draw, tier):
    ts = draw(G.general_ts(tier="quick", contemporaneous=True, single_root=True, min_muts=1,
                           max_n=10, max_trees=10))
    return dict(
        ts=ts,
        method=draw(st.sampled_from(["inside_outside", "maximization"])),
        spec=draw(D.prior_spec(favour_wide=True)),
        theta=draw(D.rate_spec(-2, 1)),
        eps=draw(st.sampled_from([None, None, 0.0, 1e-10, 1e-6, 1e-2, 1.0])),
    )


def strategy(tier):
    return strategy_(tier)


def close(a, b, floor=0.0):
    a = np.asarray(a, dtype=float)
    b = np.asarray(b, dtype=float)
    with np.errstate(invalid="ignore"):
        ok = np.abs(a - b) <= TOL * np.maximum(np.abs(a), np.abs(b)) + floor
    ok |= a == b
    return ok


def worst(a, b):
    a = np.asarray(a, dtype=float)
    b = np.asarray(b, dtype=float)
    with np.errstate(invalid="ignore", divide="ignore"):
        r = np.abs(a - b) / np.maximum(np.abs(a), np.abs(b))
    r = r[np.isfinite(r)]
    return float(r.max()) if r.size else 0.0


def bucket(x):
    if x == 0:
        return "0"
    k = int(np.ceil(np.log10(x)))
    return f"<=1e{max(k, -16)}"


def log_fit_arrays(fit):
    """finite quantities held by a logarithmic fit: normalised and unnormalised inside, normalisers,
    outside (if any)"""
    nf = np.asarray(fit.inside.nonfixed_nodes)
    ins = np.asarray(fit.inside.grid_data, dtype=float)
    den = np.asarray(fit.denominator, dtype=float)[nf]
    arrs = [ins, ins + den[:, None], den]
    if hasattr(fit, "outside"):
        arrs.append(np.asarray(fit.outside.grid_data, dtype=float))
    return arrs


def extreme_in_log_fit(fit):
    for a in log_fit_arrays(fit):
        f = a[np.isfinite(a)]
        if f.size and (f.min() < -EXTREME or f.max() > EXTREME):
            return True
    return False


def linear_lost_information(flin, flog):
    """an entry of the linear fit is 0 / tiny / non-finite where the log fit is finite and extreme"""
    nf_lin = np.asarray(flin.inside.nonfixed_nodes)
    nf_log = np.asarray(flog.inside.nonfixed_nodes)
    if not np.array_equal(nf_lin, nf_log):
        return False
    pairs = [(np.asarray(flin.inside.grid_data, dtype=float), np.asarray(flog.inside.grid_data, dtype=float))]
    dl = np.asarray(flin.denominator, dtype=float)[nf_lin]
    dg = np.asarray(flog.denominator, dtype=float)[nf_log]
    pairs.append((dl, dg))
    # unnormalised inside: linear value is inside*denominator
    with np.errstate(all="ignore"):
        pairs.append((pairs[0][0] * dl[:, None], pairs[0][1] + dg[:, None]))
    if hasattr(flin, "outside") and hasattr(flog, "outside"):
        pairs.append((np.asarray(flin.outside.grid_data, dtype=float), np.asarray(flog.outside.grid_data, dtype=float)))
    for k, (lin, lg) in enumerate(pairs):
        with np.errstate(invalid="ignore"):
            lost = (~np.isfinite(lin) | (np.abs(lin) < FLOOR)) & np.isfinite(lg) & (np.abs(lg) > EXTREME)
        if np.any(lost):
            return True
    return False


def unstandardised_outside_is_extreme(case):
    """inside_outside only: the stored outside rows are standardised, so an underflow of a whole
    row in linear space (0/0 -> NaN) leaves no trace in the logarithmic fit. Re-run the
    logarithmic computation with the documented option outside_standardize=False and look at the
    magnitudes it really has to represent."""
    ts, spec = case["ts"], case["spec"]

    def go():
        kw = D.prior_kwargs(ts, spec)
        kw.update(mutation_rate=D.mutation_rate(ts, spec, case["theta"]), return_fit=True,
                  probability_space=D.LOG, outside_standardize=False)
        if case["eps"] is not None:
            kw["eps"] = case["eps"]
        with np.errstate(all="ignore"):
            return tsdate.inside_outside(ts, **kw)
    status, res = call(go)
    if status != "ok":
        return False
    a = np.asarray(res[1].outside.grid_data, dtype=float)
    f = a[np.isfinite(a)]
    return bool(f.size and (f.min() < -EXTREME or f.max() > EXTREME))


def check(case, ctx):
    ts, method, spec = case["ts"], case["method"], case["spec"]
    ctx.label("method=" + method, "prior=" + spec["kind"] + (":" + spec["shape"] if "shape" in spec else ""))
    if ts.num_mutations == 0:
        ctx.discard("no_mutations")
        return []
    slin, rlin = D.run_discrete(ts, method, spec, case["theta"], case["eps"], D.LIN)
    slog, rlog = D.run_discrete(ts, method, spec, case["theta"], case["eps"], D.LOG)
    if slog != "ok":
        if slin == slog and exc_key(rlin) == exc_key(rlog):
            ctx.discard(f"both_{slog}:" + exc_key(rlog))
            return []
        if slin != "ok":
            ctx.discard("both_failed_differently")
            return []
        return [Violation("log_space_failed_only:" + exc_key(rlog),
                          f"linear run fine, logarithmic run {slog}: {rlog!r}")]
    dlog, flog, llog = rlog
    if slin != "ok":
        if (extreme_in_log_fit(flog) or abs(float(llog)) > 690
                or (method == "inside_outside" and unstandardised_outside_is_extreme(case))):
            ctx.discard("out_of_domain:linear_raised:" + exc_key(rlin))
            return []
        return [Violation("linear_failed_without_underflow:" + exc_key(rlin),
                          f"linear run {slin}: {rlin!r} although every quantity of the logarithmic fit is "
                          f"within e^+-{EXTREME:.0f}")]
    dlin, flin, llin = rlin
    n = ts.num_nodes
    nons = np.flatnonzero(~D.node_is_sample(ts))
    nf = np.asarray(flin.inside.nonfixed_nodes)
    il = np.asarray(flin.inside.grid_data, dtype=float)
    ig = np.asarray(flog.inside.grid_data, dtype=float)
    same_rows = np.array_equal(nf, np.asarray(flog.inside.nonfixed_nodes))
    structural = bool(same_rows and np.any((il[:, 1:] == 0) & np.isneginf(ig[:, 1:])))
    if structural:
        ctx.label("structural_zero_beyond_time0")
    if ts.num_trees >= 2:
        ctx.label("trees>=2")
    if structural and ts.num_trees >= 2 and ts.num_mutations >= 3:
        ctx.mark_nontrivial()
        ctx.label("nontrivial")
    lost = linear_lost_information(flin, flog)
    if lost:
        ctx.label("linear_lost_information")
    elif structural:
        ctx.label("structural_zero_and_linear_lossless")

    out = []
    errs = []
    if method == "maximization":
        tp = np.asarray(flin.lik.timepoints, dtype=float)
        i1 = D.grid_index(tp, flin.posterior_mean)
        i2 = D.grid_index(np.asarray(flog.lik.timepoints, dtype=float), flog.posterior_mean)
        if np.any(i1[nons] < 0) or np.any(i2[nons] < 0):
            ctx.discard("not_grid_points (C13)")
            return []
        if not np.array_equal(i1[nons], i2[nons]):
            eps = 1e-8 if case["eps"] is None else case["eps"]
            mu = D.mutation_rate(ts, spec, case["theta"])
            dag = D.Dag(ts)
            for u in dag.parents_first:
                if dag.is_sample[u] or i1[u] == i2[u]:
                    continue
                a, b = int(i1[u]), int(i2[u])
                o1, terms, norms = D.log_objective(flin, dag, u, i1, mu, eps)
                o2, _, _ = D.log_objective(flog, dag, u, i2, mu, eps)
                hi = max(a, b)
                if hi >= len(o1) or hi >= len(o2):
                    out.append(Violation("maximization:beyond_youngest_parent",
                                         f"node {u}: indices {a} / {b}, parents allow <= {len(o1) - 1}"))
                    break
                if D.is_tie(o1[a], o1[b]) or D.is_tie(o2[a], o2[b]):
                    ctx.discard("numerical tie")
                    return []
                tol2 = 1e-9 * max(1.0, abs(float(o2[a]))) if np.isfinite(o2[a]) else 0.0
                if np.isfinite(o2[a]) and not np.isnan(o2[b]) and o2[b] < o2[a] - tol2:
                    # judged with the LOG fit's own objective (which cannot underflow) the logarithmic
                    # run did not pick its best timepoint while the linear run did: the disagreement is
                    # not a loss of information in linear space
                    out.append(Violation("maximization:log_choice_worse_under_its_own_objective",
                                         f"node {u}: logarithmic space chose index {b} (objective {o2[b]!r}) although "
                                         f"index {a}, chosen in linear space, has {o2[a]!r} under the log fit",
                                         node=int(u)))
                    break
                if D.linear_margin(o1, terms, norms, [a, b]) < -650 or np.any(np.isnan(o1)):
                    ctx.discard("out_of_domain:linear_underflow_at_candidate")
                    return []
                out.append(Violation("maximization:different_timepoint",
                                     f"node {u}: index {a} in linear, {b} in logarithmic space; objective (log) "
                                     f"from the linear fit {o1[a]!r} / {o1[b]!r}, from the log fit {o2[a]!r} / {o2[b]!r}",
                                     node=int(u)))
                break
        if not out:
            ok = close(dlin.nodes_time, dlog.nodes_time)
            errs.append(worst(dlin.nodes_time, dlog.nodes_time))
            if not np.all(ok):
                out.append(Violation("maximization:node_times", f"returned node times differ by {errs[-1]:.3g}"))
    else:
        g = len(flin.lik.timepoints)
        p1 = np.asarray(flin.node_posteriors().view(np.float64)).reshape(n, g)
        p2 = np.asarray(flog.node_posteriors().view(np.float64)).reshape(n, g)
        mn1, vr1 = node_metadata_mn_vr(dlin)
        mn2, vr2 = node_metadata_mn_vr(dlog)
        for name, a, b, floor in (
            ("node_times", dlin.nodes_time, dlog.nodes_time, 0.0),
            ("mn", mn1[nons], mn2[nons], 0.0),
            ("vr", vr1[nons], vr2[nons], 0.0),
            ("posterior", p1[nons], p2[nons], FLOOR),
        ):
            ok = close(a, b, floor)
            big = np.maximum(np.abs(a), np.abs(b)) > 1e-250
            errs.append(worst(np.asarray(a)[big], np.asarray(b)[big]))
            if not np.all(ok):
                w = np.unravel_index(int(np.argmin(ok)), np.shape(ok))
                out.append(Violation(f"inside_outside:{name}",
                                     f"{name} differ (worst rel {worst(a, b):.3g}); first at {w}: linear "
                                     f"{np.asarray(a)[w]!r} vs logarithmic {np.asarray(b)[w]!r}"))
    # marginal likelihood: exp(loglik) vs lik
    lg = float(llog)
    lin_l = float(llin)
    if np.isfinite(lin_l) and lin_l > FLOOR:
        ll = float(np.log(lin_l))
        err = abs(ll - lg) / max(1.0, abs(lg)) if np.isfinite(lg) else np.inf
        errs.append(err)
        if not err <= TOL:
            out.append(Violation(f"{method}:likelihood", f"linear likelihood {lin_l!r} (log {ll!r}) vs "
                                 f"logarithmic {lg!r}"))
    elif np.isfinite(lg) and abs(lg) > EXTREME:
        ctx.label("likelihood_beyond_double_range")  # exp(loglik) is not representable: out of domain
    elif (np.isnan(lin_l) and np.isnan(lg)) or (lin_l == 0.0 and lg == -np.inf):
        # both spaces report the same degenerate value (eps=0: zero-rate Poisson terms give 0/0 or an
        # impossible configuration in both): the two spaces agree, which is all C12 asks
        ctx.label("likelihood_degenerate_in_both_spaces")
    else:
        out.append(Violation(f"{method}:likelihood_unrepresented", f"linear likelihood {lin_l!r} although the "
                             f"logarithmic one is {lg!r}"))
    if out:
        if lost:
            ctx.discard("out_of_domain:linear_lost_information")
            return []
        if method == "inside_outside" and unstandardised_outside_is_extreme(case):
            ctx.discard("out_of_domain:outside_beyond_double_range")
            return []
        return out
    ctx.label(("maxerr_lossy" if lost else "maxerr") + bucket(max(errs) if errs else 0.0))
    return []


def describe(case):
    return dict(ts=G.ts_summary(case["ts"]), method=case["method"], spec=case["spec"], theta=case["theta"],
                eps=case["eps"])
