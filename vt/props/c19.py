"""C19 — special-function and gamma-fitting helpers are accurate.

hypergeo._digamma / _trigamma / _betaln against scipy.special (mpmath confirms any mismatch
before it is reported); approx.approximate_gamma_mom / _kl / _iqr: the returned gamma is
re-evaluated with scipy and must reproduce the requested statistics, infeasible requests
must be reported as KLMinimizationFailedError.
"""

import math

import numpy as np
import scipy.special as sc
from hypothesis import strategies as st

from tsdate import approx, hypergeo

from vt.common import call, exc_key
from vt.runner import Violation

ID = "C19"
LEVEL = "exploration"
RULE = (
    "case = batch of 16 arguments of one helper: log-uniform over 10^U(-8,8) from a drawn seed, or "
    "straddling the helper's internal cut-offs (1e-5, 8.5 - n for digamma; 1e-4, 5 - n for trigamma; KL "
    "asymptotic switch at shape 1e4 at offsets 2^-52..2^-5; IQR shape at the cap x (1 +- 1e-5..0.1)); gamma fits get statistics "
    "of a drawn gamma (shape 10^U(-3,6) KL / 10^U(-1.3,4) IQR, rate 10^U(-8,8)), plus infeasible requests; "
    "non-trivial = every point of the batch evaluated against the reference (no discard); distinct by case digest"
)
ASSUMPTIONS = [
    "scipy.special digamma / polygamma / betaln / gammaincinv trusted (mpmath at 40 digits arbitrates mismatches)",
    "digamma for x <= 1e-5 and trigamma for x <= 1e-4 are the documented two-term Laurent expansions: their "
    "truncation (zeta(2) x, resp. zeta(2) x^2 relative, i.e. <= 1.6e-10 / 1.6e-8 relative) is allowed for",
    "betaln is judged as a three-term lgamma expression: allowed error 1e-13 max(1,|ref|) + 4 eps (|lgamma p| + "
    "|lgamma q| + |lgamma(p+q)|); it is NOT accurate relative to its result for large disparate arguments "
    "(rel. error 1.4e-6 at p=0.13, q=9e7), arguments tsdate never passes",
    "IQR fit: q1 in {0.05,0.1,0.25,0.4,0.45}, q2 = 1-q1 (the only form tsdate uses), source shape >= 0.05 "
    "(at shape 0.01 and q1 = 0.01 the lower quantile underflows and the fit divides by zero)",
]

EPS = 2.220446049250313e-16
ZETA2 = math.pi**2 / 6

# Calibration on the unchanged tree (2 x 10^5 log-uniform points + every straddler):
#   digamma, x > 1e-5 : max |err| / max(1,|ref|) = 8.3e-15 (x ~ 2.5)          -> tol 1e-13
#   digamma, x <= 1e-5: |err| <= 1.645 x (truncated series) + rounding of 1/x -> tol 1e-13 max(1,|ref|) + 2x
#   trigamma, x > 1e-4: max rel err 3.2e-11 at x = 5 (series truncation; deterministic sup)  -> tol 2e-10
#   trigamma, x <= 1e-4: rel err = zeta(2) x^2 <= 1.645e-8                                   -> tol 2e-10 + 2 x^2
#   betaln: max |err| / (eps * sum|lgamma|) = 0.7                                           -> factor 4
#   KL fit (60 000 gammas, shape 1e-3..1e6): no failure; |E log - requested| / max(1,|requested|) <= 5.4e-14
#       outside the asymptotic branch, <= 8.3e-10 inside it (1/(12 a^2) at a = 1e4: deterministic sup)
#   MoM fit: exact to rounding of shape-1 (rel err <= 1.2 eps / shape: 5e-13 at shape 5e-4)
#   IQR fit (40 000 + quick runs): quantile ratio rel err <= 2.5e-13 for shape >= 0.05 (1.9e-7 at shape 0.012,
#       q1 = 0.01: outside the domain), capped: shape == cap exactly, lower quantile 2e-16
TOL_DIGAMMA = 1e-13
TOL_TRIGAMMA = 2e-10
TOL_MOM = 1e-13  # + 8 eps / shape: the returned natural parameter shape-1 cannot carry a tiny shape
TOL_KL_MEAN = 1e-13  # idem
TOL_KL_LOG = 1e-11  # Newton branch (calibrated 5.4e-14)
TOL_KL_LOG_ASYMPTOTIC = 1e-9  # requested Jensen gap < 6e-5 (shape > ~8 000): asymptotic shortcut
TOL_IQR_RATIO = 1e-10
TOL_IQR_LOWER = 1e-9
TOL_IQR_CAP = 1e-12

KINDS = ["digamma", "trigamma", "betaln", "mom", "kl", "iqr", "infeasible"]
B = 16
DIGAMMA_CUTS = [1e-5, 8.5, 7.5, 6.5, 5.5, 4.5, 3.5, 2.5, 1.5, 0.5, 1.4616321449683623, 1.0, 2.0]
TRIGAMMA_CUTS = [1e-4, 5.0, 4.0, 3.0, 2.0, 1.0, 6.0]
OFFSETS = [0.0] + [s * 2.0**-k for k in (52, 51, 45, 35, 25, 15, 8, 5) for s in (-1.0, 1.0)]


def budget(tier):
    if tier == "quick":
        return dict(examples=1500, shards=4, min_nontrivial=3000)
    return dict(examples=20000, shards=16, min_nontrivial=50000)


def _lu(rng, lo, hi, n=None):
    return 10.0 ** rng.uniform(lo, hi, n)


IQR_OFFSETS = [s * 10.0**-k for k in (1, 2, 3, 4, 5) for s in (-1.0, 1.0)]


def build(seed):
    """case from a seed: Hypothesis draws only the seed (its own float / sampled_from draws are far
    from uniform: a first version gave betaln 4 % and iqr 27 % of the cases, and cost 3x the time)"""
    rng = np.random.default_rng([seed, 19])
    kind = KINDS[int(rng.integers(len(KINDS)))]
    mode = "straddle" if rng.random() < 1 / 3 else "uniform"
    pick = lambda xs: xs[int(rng.integers(len(xs)))]  # noqa: E731
    pts = []
    if kind in ("digamma", "trigamma"):
        if mode == "uniform":
            pts = [(float(x),) for x in _lu(rng, -8, 8, B)]
        else:
            cuts = DIGAMMA_CUTS if kind == "digamma" else TRIGAMMA_CUTS
            pts = [(float(pick(cuts) * (1.0 + pick(OFFSETS))),) for _ in range(B)]
    elif kind == "betaln":
        for _ in range(B):
            if mode == "uniform":
                pts.append((float(_lu(rng, -8, 8)), float(_lu(rng, -8, 8))))
            else:  # the arguments approx.py passes: (y + 1, shape), (shape, shape)
                p = float(rng.integers(0, 301) + 1) if rng.random() < 0.5 else float(_lu(rng, -0.3, 3.1))
                pts.append((p, float(_lu(rng, -0.3, 3.1))))
    elif kind == "mom":
        for _ in range(B):
            mean = float(_lu(rng, -8, 8))
            pts.append((mean, float(mean**2 * _lu(rng, -6, 4))))
    elif kind == "kl":
        for _ in range(B):
            if mode == "uniform":
                k = float(_lu(rng, -3, 6))
            else:  # around the asymptotic switch (0.5 / gap = 1e4) and the Newton start
                k = float(pick([1e4 + 1 / 6, 1e4, 9.9e3, 1.01e4, 1.0, 0.5]) * (1.0 + pick(OFFSETS)))
            r = float(_lu(rng, -8, 8))
            pts.append((k / r, float(sc.digamma(k) - math.log(r)), k))
    elif kind == "iqr":
        for _ in range(B):
            q1 = float(pick([0.25, 0.25, 0.25, 0.05, 0.1, 0.4, 0.45]))
            cap = float(pick([1.5, 3.0, 10.0, 100.0, 1000.0, 1e4]))
            if mode == "uniform":
                k = float(_lu(rng, -1.3, 4))
            else:  # at the cap
                k = cap * (1.0 + pick(IQR_OFFSETS))
            r = float(_lu(rng, -6, 6))
            x1 = float(sc.gammaincinv(k, q1) / r)
            x2 = float(sc.gammaincinv(k, 1 - q1) / r)
            if rng.random() < 1 / 16:
                x2 = x1  # degenerate request: "shape would exceed the cap"
                k = math.inf
            pts.append((q1, 1 - q1, x1, x2, cap, k))
    else:  # infeasible requests: failure is the expected report
        for _ in range(B):
            which = pick(["mom:mean<=0", "mom:var<=0", "kl:x<=0", "kl:jensen", "kl:inf"])
            x = float(_lu(rng, -8, 8))
            if which == "mom:mean<=0":
                pts.append((which, float(-x * pick([0.0, 1.0])), x))
            elif which == "mom:var<=0":
                pts.append((which, x, float(-x * pick([0.0, 1.0]))))
            elif which == "kl:x<=0":
                pts.append((which, float(-x * pick([0.0, 1.0])), 0.0))
            elif which == "kl:jensen":
                # E[log x] above log E[x] by a margin far beyond rounding (exact equality is a tie
                # between numpy's and numba's log and is not generated)
                pts.append((which, x, float(math.log(x) + max(1.0, abs(math.log(x))) * _lu(rng, -12, 2))))
            else:
                pts.append((which, x, pick([math.inf, -math.inf])))
    return dict(kind=kind, mode=mode, pts=pts)


def strategy(tier):
    return st.integers(0, 2**32 - 1).map(build)


def describe(case):
    return dict(kind=case["kind"], mode=case["mode"], first=list(case["pts"][0]), n=len(case["pts"]))


def _mp_digamma(x):
    import mpmath as mp

    with mp.workdps(40):
        return float(mp.digamma(mp.mpf(x)))


def _mp_trigamma(x):
    import mpmath as mp

    with mp.workdps(40):
        return float(mp.polygamma(1, mp.mpf(x)))


def _mp_betaln(p, q):
    import mpmath as mp

    with mp.workdps(60):
        p, q = mp.mpf(p), mp.mpf(q)
        return float(mp.loggamma(p) + mp.loggamma(q) - mp.loggamma(p + q))


def _track(ctx, name, value):
    k = "max:" + name
    cur = ctx.extra.get(k)
    ctx.extra[k] = [max(value, cur[0])] if cur else [float(value)]


def _raised(out, name, args, res):
    out.append(Violation(f"raised:{name}:{exc_key(res)}", f"{name}{tuple(args)} raised {res!r}"))


def check(case, ctx):
    kind = case["kind"]
    out = []
    ctx.label("kind=" + kind, "mode=" + case["mode"])
    clean = True
    for pt in case["pts"]:
        d0 = sum(ctx.discards.values())
        _one(kind, pt, ctx, out)
        if sum(ctx.discards.values()) != d0:
            clean = False
    if clean:
        ctx.mark_nontrivial()
    return out


def _one(kind, pt, ctx, out):
    if kind == "digamma":
        (x,) = pt
        status, got = call(hypergeo._digamma, x)
        if status != "ok":
            return _raised(out, "_digamma", pt, got)
        ref = float(sc.digamma(x))
        tol = TOL_DIGAMMA * max(1.0, abs(ref)) + (2.0 * x if x <= 1e-5 else 0.0)
        if x <= 1e-5:
            ctx.label("digamma:laurent_branch")
        err = abs(got - ref)
        if x > 1e-5:
            _track(ctx, "digamma_scaled_err(x>1e-5)", err / max(1.0, abs(ref)))
        if not err <= tol:
            ref = _mp_digamma(x)
            if not abs(got - ref) <= tol:
                out.append(Violation("digamma:inaccurate", f"_digamma({x!r}) = {got!r}, reference {ref!r}, |err| {abs(got - ref):.3g} > {tol:.3g}"))
    elif kind == "trigamma":
        (x,) = pt
        status, got = call(hypergeo._trigamma, x)
        if status != "ok":
            return _raised(out, "_trigamma", pt, got)
        ref = float(sc.polygamma(1, x))
        tol = TOL_TRIGAMMA + (2.0 * x * x if x <= 1e-4 else 0.0)
        if x <= 1e-4:
            ctx.label("trigamma:laurent_branch")
        err = abs(got - ref) / abs(ref)
        if x > 1e-4:
            _track(ctx, "trigamma_rel_err(x>1e-4)", err)
        if not err <= tol:
            ref = _mp_trigamma(x)
            if not abs(got - ref) / abs(ref) <= tol:
                out.append(Violation("trigamma:inaccurate", f"_trigamma({x!r}) = {got!r}, reference {ref!r}, rel err {abs(got - ref) / abs(ref):.3g} > {tol:.3g}"))
    elif kind == "betaln":
        p, q = pt
        status, got = call(hypergeo._betaln, p, q)
        if status != "ok":
            return _raised(out, "_betaln", pt, got)
        ref = float(sc.betaln(p, q))
        terms = abs(math.lgamma(p)) + abs(math.lgamma(q)) + abs(math.lgamma(p + q))
        tol = 1e-13 * max(1.0, abs(ref)) + 4.0 * EPS * terms
        err = abs(got - ref)
        _track(ctx, "betaln_err_over_tol", err / tol)
        if max(p, q) <= 2000:
            _track(ctx, "betaln_scaled_err(args<=2000)", err / max(1.0, abs(ref)))
        if not err <= tol:
            ref = _mp_betaln(p, q)
            if not abs(got - ref) <= tol:
                out.append(Violation("betaln:inaccurate", f"_betaln({p!r},{q!r}) = {got!r}, reference {ref!r}, |err| {abs(got - ref):.3g} > {tol:.3g}"))
    elif kind == "mom":
        mean, var = pt
        status, got = call(approx.approximate_gamma_mom, mean, var)
        if status != "ok":
            return _raised(out, "approximate_gamma_mom", pt, got)
        shape, rate = got[0] + 1.0, got[1]
        e = max(abs(shape / rate / mean - 1.0), abs(shape / rate**2 / var - 1.0))
        _track(ctx, "mom_rel_err", e)
        if not (shape > 0 and rate > 0 and e <= TOL_MOM + 8 * EPS / min(1.0, mean**2 / var)):
            out.append(Violation("mom:mismatch", f"approximate_gamma_mom({mean!r},{var!r}) -> shape {shape!r}, rate {rate!r}: mean/var rel err {e:.3g}"))
    elif kind == "kl":
        mean, meanlog, k = pt
        gap = math.log(mean) - meanlog
        if not gap > 0:
            ctx.discard("kl:gap_lost_to_rounding")
            return
        status, got = call(approx.approximate_gamma_kl, mean, meanlog)
        if status != "ok":
            if isinstance(got, approx.KLMinimizationFailedError):
                out.append(Violation("kl:failed_on_feasible", f"approximate_gamma_kl({mean!r},{meanlog!r}) (statistics of a gamma of shape {k!r}) reported {got!r}"))
                return
            return _raised(out, "approximate_gamma_kl", pt, got)
        shape, rate = got[0] + 1.0, got[1]
        if not (shape > 0 and rate > 0 and math.isfinite(shape) and math.isfinite(rate)):
            out.append(Violation("kl:invalid_gamma", f"approximate_gamma_kl({mean!r},{meanlog!r}) -> shape {shape!r}, rate {rate!r}"))
            return
        asym = gap < 6e-5
        ctx.label("kl:asymptotic_branch" if asym else "kl:newton_branch")
        e_mean = abs(shape / rate / mean - 1.0)
        e_log = abs(float(sc.digamma(shape)) - math.log(rate) - meanlog) / max(1.0, abs(meanlog))
        _track(ctx, "kl_meanlog_err:" + ("asymptotic" if asym else "newton"), e_log)
        tol = TOL_KL_LOG_ASYMPTOTIC if asym else TOL_KL_LOG
        if not e_mean <= TOL_KL_MEAN + 8 * EPS / min(1.0, shape):
            out.append(Violation("kl:mean_mismatch", f"approximate_gamma_kl({mean!r},{meanlog!r}): mean of returned gamma off by {e_mean:.3g}"))
        if not e_log <= tol:
            out.append(Violation("kl:meanlog_mismatch" + (":asymptotic" if asym else ""),
                                 f"approximate_gamma_kl({mean!r},{meanlog!r}) -> shape {shape!r}: E[log x] off by {e_log:.3g} (scaled) > {tol}"))
    elif kind == "iqr":
        q1, q2, x1, x2, cap, k = pt
        if not (0 < x1 <= x2 and math.isfinite(x2)):
            ctx.discard("iqr:quantile_underflow")
            return
        if x1 == x2 and k != math.inf:
            ctx.discard("iqr:quantiles_coincide_in_double")
            return
        status, got = call(approx.approximate_gamma_iqr, q1, q2, x1, x2, cap)
        if status != "ok":
            if isinstance(got, approx.KLMinimizationFailedError):
                out.append(Violation("iqr:failed_on_valid", f"approximate_gamma_iqr{(q1, q2, x1, x2, cap)} (quantiles of a gamma of shape {k!r}) reported {got!r}"))
                return
            return _raised(out, "approximate_gamma_iqr", pt, got)
        shape, rate = got[0] + 1.0, got[1]
        if not (shape > 0 and rate > 0 and math.isfinite(shape) and math.isfinite(rate)):
            out.append(Violation("iqr:invalid_gamma", f"approximate_gamma_iqr{(q1, q2, x1, x2, cap)} -> shape {shape!r}, rate {rate!r}"))
            return
        p1 = float(sc.gammaincinv(shape, q1)) / rate
        p2 = float(sc.gammaincinv(shape, q2)) / rate
        if k > cap * (1 + 1e-6):
            ctx.label("iqr:capped" if k != math.inf else "iqr:degenerate")
            e_cap, e_low = abs(shape / cap - 1.0), abs(p1 / x1 - 1.0)
            _track(ctx, "iqr_capped_lower_err", e_low)
            if not e_cap <= TOL_IQR_CAP:
                out.append(Violation("iqr:cap_not_applied", f"approximate_gamma_iqr{(q1, q2, x1, x2, cap)}: true shape {k!r} > cap but returned shape {shape!r}"))
            elif not e_low <= TOL_IQR_LOWER:
                out.append(Violation("iqr:capped_lower_quantile", f"approximate_gamma_iqr{(q1, q2, x1, x2, cap)}: capped, lower quantile of result {p1!r} != {x1!r}"))
        elif k < cap * (1 - 1e-6):
            ctx.label("iqr:uncapped")
            e = abs((p2 / p1) / (x2 / x1) - 1.0)
            _track(ctx, "iqr_ratio_err", e)
            if not e <= TOL_IQR_RATIO:
                out.append(Violation("iqr:ratio_mismatch", f"approximate_gamma_iqr{(q1, q2, x1, x2, cap)} -> shape {shape!r} (source shape {k!r}): "
                                     f"quantile ratio {p2 / p1!r} != requested {x2 / x1!r} (rel {e:.3g})"))
        else:
            ctx.discard("iqr:shape_at_cap (numerical tie)")
    else:
        which, a, b = pt
        ctx.label("infeasible=" + which)
        name = "approximate_gamma_mom" if which.startswith("mom") else "approximate_gamma_kl"
        status, got = call(getattr(approx, name), a, b)
        if status == "ok":
            out.append(Violation("accepted_infeasible:" + which, f"{name}({a!r},{b!r}) returned {got!r} instead of reporting failure"))
        elif not isinstance(got, approx.KLMinimizationFailedError):
            _raised(out, name, (a, b), got)


def finish(ctx, tier):
    acc = {}
    for k in sorted(k for k in ctx.extra if k.startswith("max:")):
        acc[k[4:]] = float(max(ctx.extra.pop(k)))
    ctx.extra["observed_max"] = acc
