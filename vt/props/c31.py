"""C31 — site-time estimates follow their documented definition.

Oracle (R): direct per-site evaluation of the documented definition with tskit.Tree parents:
max over the site's mutations of child age / parent age / arithmetic / geometric mean (child age
above a root), raised to min_time, NaN for mutation-free sites; unconstrained=True replaces the
ages of non-sample nodes by the `mn` node metadata (sample ages stay the node times).
add_sampledata_times: max(estimate, oldest historical individual carrying a derived allele),
computed from the drawn genotype matrix.
"""

import json
import logging

import numpy as np
import tskit
from hypothesis import strategies as st

import tsdate

from vt.common import call, exc_key, node_is_sample
from vt.gen import ts as G
from vt.gen import util_h as H
from vt.runner import Violation

ID = "C31"
LEVEL = "exploration"
RULE = (
    "cases = (a) outputs of tsdate.date (variational_gamma / inside_outside / maximization) on generated "
    "inputs whose node table has no schema, permissive JSON or a struct schema with mn/vr, (b) hand-dated "
    "tree sequences (multi-root, historical samples, missing data, mutations above roots and on isolated "
    "samples, invariant sites) whose JSON node metadata carries drawn mn values (optionally missing on one "
    "node, present on samples, or raw JSON bytes without schema) x node_selection x min_time x "
    "unconstrained; (c) drawn tsinfer.SampleData with historical individuals for add_sampledata_times; "
    "non-trivial = some site has >= 2 mutations with different ages or a mutation above a root; distinct "
    "by SHA-1 of (tables, configuration)"
)
ASSUMPTIONS = [
    "tskit trees and metadata codecs trusted; tsinfer.SampleData trusted as a container",
    "relative tolerance 1e-12 for the arithmetic/geometric means (algebraically equal formulations differ "
    "by a few ulp); exact equality for child/parent and for NaN positions",
    "struct-encoded mn is in scope only when tsdate.date itself wrote it (input node schema = struct with mn/vr)",
    "when mn is absent the documented outcome is a ValueError",
]
logging.getLogger("tsdate").addHandler(logging.NullHandler())
SELECTIONS = ["child", "parent", "arithmetic", "geometric"]
RTOL = 1e-12


def budget(tier):
    if tier == "quick":
        return dict(examples=300, shards=4, time_s=2400)  # time_s: only a guard for overloaded machines
    return dict(examples=2500, shards=16)


@st.composite
def strategy_(draw, tier):
    kind = draw(st.sampled_from(["dated", "dated", "hand", "hand", "hand", "sampledata"]))
    cfg = dict(node_selection=draw(st.sampled_from(SELECTIONS * 3 + ["median"])),
               min_time=draw(st.sampled_from([None, None, 0, 1e-6, 1, 10.0, 1e6])),
               unconstrained=draw(st.sampled_from([None, True, False, False])))
    if kind == "sampledata":
        n_ind = draw(st.integers(1, 6))
        ploidy = draw(st.lists(st.integers(1, 2), min_size=n_ind, max_size=n_ind))
        times = draw(st.lists(st.sampled_from([0.0, 0.0, 0.5, 3.0, 100.0]), min_size=n_ind, max_size=n_ind))
        n_sites = draw(st.integers(1, 6))
        n_s = sum(ploidy)
        sites = []
        for j in range(n_sites):
            n_all = draw(st.integers(2, 3))
            g = draw(st.lists(st.integers(-1, n_all - 1), min_size=n_s, max_size=n_s))
            sites.append(dict(g=g, n_all=n_all))
        est = draw(st.lists(st.sampled_from([0.0, 0.25, 1.0, 3.0, 50.0, 1000.0]), min_size=n_sites, max_size=n_sites))
        wrong_len = draw(st.integers(0, 9)) == 0
        return dict(kind=kind, ploidy=ploidy, times=times, sites=sites, est=est, wrong_len=wrong_len)
    if kind == "dated":
        ts = draw(G.general_ts(tier=tier, contemporaneous=True, single_root=True, min_muts=2,
                               max_n=8 if tier == "quick" else None))
        fam = draw(st.sampled_from(["asis", "json_permissive", "struct_mnvr", "none_empty"]))
        if fam != "asis":
            tables = ts.dump_tables()
            G.set_table_metadata(tables.nodes, fam)
            ts = tables.tree_sequence()
        n_inv = draw(st.integers(0, 2))
        if n_inv:
            ts = H.add_sites(ts, [(ts.sequence_length * draw(st.integers(0, 63)) / 64.0, None) for _ in range(n_inv)])
        return dict(kind=kind, ts=ts, fam=fam, cfg=cfg, mu=10.0 ** draw(st.integers(-3, 0)),
                    method=draw(st.sampled_from(["variational_gamma", "inside_outside", "maximization"])))
    ts = draw(G.general_ts(tier=tier, contemporaneous=draw(st.booleans()), single_root=draw(st.booleans()),
                           min_muts=1, missing=draw(st.booleans()), time_scale=draw(st.booleans())))
    if draw(st.booleans()):
        ts = G.add_root_and_isolated_mutations(ts, draw(st.integers(0, 1)), draw(st.integers(0, 1)),
                                               draw(st.lists(st.integers(0, 7), min_size=1, max_size=4)))
    n_inv = draw(st.integers(0, 2))
    if n_inv:
        ts = H.add_sites(ts, [(ts.sequence_length * draw(st.integers(0, 63)) / 64.0, None) for _ in range(n_inv)])
    n = ts.num_nodes
    fac = draw(st.lists(st.sampled_from([0.0, 0.25, 0.5, 1.0, 1.5, 4.0]), min_size=n, max_size=n))
    md = draw(st.sampled_from(["json", "json", "json_samples_too", "json_missing_one", "raw_json_no_schema", "none"]))
    drop = draw(st.integers(0, 10**6))
    return dict(kind=kind, ts=ts, cfg=cfg, fac=fac, md=md, drop=drop)


def strategy(tier):
    return strategy_(tier)


def hand_date(ts, fac, md, drop):
    """install mn metadata; returns (ts, expected unconstrained ages or None if mn is incomplete)"""
    is_s = node_is_sample(ts)
    t = ts.nodes_time
    mn = t * np.array(fac) + np.where(t == 0, np.array(fac), 0.0)
    tables = ts.dump_tables()
    if md == "none":
        tables.nodes.metadata_schema = tskit.MetadataSchema(None)
        tables.nodes.packset_metadata([b""] * ts.num_nodes)
        complete = bool(np.all(is_s))
        return tables.tree_sequence(), (t.copy() if complete else None)
    nons = np.flatnonzero(~is_s)
    missing = int(nons[drop % len(nons)]) if (md == "json_missing_one" and len(nons)) else -1
    rows = []
    for u in range(ts.num_nodes):
        d = {"k": u}
        if (not is_s[u] or md == "json_samples_too") and u != missing:
            d["mn"] = float(mn[u])
            d["vr"] = 1.0
        rows.append(json.dumps(d).encode())
    if md == "raw_json_no_schema":
        tables.nodes.metadata_schema = tskit.MetadataSchema(None)
    else:
        tables.nodes.metadata_schema = tskit.MetadataSchema.permissive_json()
    tables.nodes.packset_metadata(rows)
    exp = np.where(is_s, t, mn)
    return tables.tree_sequence(), (None if missing >= 0 else exp)


def oracle_sites_time(ts, ages, sel, min_time):
    out = np.full(ts.num_sites, np.nan)
    nontrivial = False
    for site in ts.sites():
        if not site.mutations:
            continue
        tree = ts.at(site.position)
        vals = []
        for m in site.mutations:
            p = tree.parent(m.node)
            c = ages[m.node]
            if p == tskit.NULL:
                nontrivial = True
            if sel == "child" or p == tskit.NULL:
                vals.append(c)
            elif sel == "parent":
                vals.append(ages[p])
            elif sel == "arithmetic":
                vals.append((c + ages[p]) / 2)
            else:
                vals.append(float(np.sqrt(c * ages[p])))
        if len(set(vals)) > 1:
            nontrivial = True
        out[site.id] = max(max(vals), min_time)
    return out, nontrivial


def check_sampledata(case, ctx):
    import tsinfer

    ctx.label("kind=sampledata")
    ploidy, times = case["ploidy"], case["times"]
    with tsinfer.SampleData(sequence_length=100.0) as sd:
        for k, t in zip(ploidy, times):
            sd.add_individual(ploidy=k, time=t)
        for j, s in enumerate(case["sites"]):
            sd.add_site(position=float(j + 1), genotypes=s["g"], alleles=["A", "C", "G"][: s["n_all"]])
    est = np.array(case["est"], dtype=float)
    if case["wrong_len"]:
        st_, res = call(tsdate.add_sampledata_times, sd, np.append(est, 1.0))
        if st_ == "rejected":
            ctx.discard("expected rejection: wrong sites_time length")
            return []
        return [Violation("sampledata_wrong_length_accepted", f"{st_}: {res!r}")]
    stime = np.repeat(np.array(times), ploidy)
    exp = est.copy()
    bound_used = False
    for j, s in enumerate(case["sites"]):
        g = np.array(s["g"])
        carriers = (g > 0) & (stime != 0)
        if carriers.any():
            b = stime[carriers].max()
            if b > exp[j]:
                exp[j] = b
                bound_used = True
    if bound_used:
        ctx.label("historical_bound_raises_a_site")
    if any(t != 0 for t in times):
        ctx.label("has_historical_individual")
    before = np.array(sd.sites_time[:])
    st_, res = call(tsdate.add_sampledata_times, sd, est.copy())
    if st_ != "ok":
        return [Violation("sampledata_raised:" + exc_key(res), f"add_sampledata_times raised {res!r}")]
    V = []
    got = np.array(res.sites_time[:])
    if not np.array_equal(got, exp):
        j = int(np.flatnonzero(got != exp)[0])
        V.append(Violation("sampledata_site_time", f"site {j}: got {got[j]!r}, expected max(estimate {est[j]!r}, oldest historical "
                           f"carrier) = {exp[j]!r}; genotypes {case['sites'][j]['g']}, sample times {stime.tolist()}"))
    after = np.array(sd.sites_time[:])
    if not np.array_equal(before, after, equal_nan=True):
        V.append(Violation("sampledata_input_modified", "the input SampleData was modified"))
    if res.num_sites != sd.num_sites or res.num_samples != sd.num_samples or not np.array_equal(
            np.array(res.sites_genotypes[:]), np.array(sd.sites_genotypes[:])):
        V.append(Violation("sampledata_copy_differs", "genotypes of the copy differ"))
    return V


def check(case, ctx):
    if case["kind"] == "sampledata":
        return check_sampledata(case, ctx)
    cfg = case["cfg"]
    sel = cfg["node_selection"]
    ctx.label("kind=" + case["kind"], "sel=" + sel, "unconstrained=" + str(cfg["unconstrained"]),
              "min_time=" + str(cfg["min_time"]))
    struct_by_tsdate = False
    if case["kind"] == "dated":
        method = case["method"]
        ctx.label("method=" + method, "fam=" + case["fam"])
        kw = dict(mutation_rate=case["mu"], method=method, record_provenance=False)
        if method == "variational_gamma":
            kw.update(rescaling_intervals=0, max_iterations=2)
        else:
            kw.update(population_size=10.0)
        st_, ts = call(tsdate.date, case["ts"], **kw)
        if st_ != "ok":
            ctx.discard("date_" + st_)
            return []
        is_s = node_is_sample(ts)
        sch = ts.table_metadata_schemas.node.schema
        codec = sch.get("codec") if sch else None
        mns = []
        for u in ts.nodes():
            md = u.metadata
            mns.append(md.get("mn", np.nan) if isinstance(md, dict) else np.nan)
        mns = np.array(mns, dtype=float)
        if method == "maximization":
            unc = None  # maximization writes no mn: the metadata is whatever the input had
            if not np.any(np.isnan(mns[~is_s])):
                ctx.discard("maximization on an input schema that already carries mn (struct defaults)")
                return []
        else:
            if np.any(np.isnan(mns[~is_s])):
                ctx.discard("date wrote no mn for some node")
                return []
            unc = np.where(is_s, ts.nodes_time, mns)
            struct_by_tsdate = codec == "struct"
            if struct_by_tsdate:
                ctx.label("mn_in_struct_schema_written_by_tsdate")
    else:
        ts, unc = hand_date(case["ts"], case["fac"], case["md"], case["drop"])
        ctx.label("md=" + case["md"])
    kw = {}
    if sel != "child" or cfg["min_time"] is None:
        kw["node_selection"] = sel
    if cfg["min_time"] is not None:
        kw["min_time"] = cfg["min_time"]
    if cfg["unconstrained"] is not None:
        kw["unconstrained"] = cfg["unconstrained"]
    min_time = 1 if cfg["min_time"] is None else cfg["min_time"]
    unconstrained = cfg["unconstrained"] is not False
    st_, got = call(tsdate.sites_time_from_ts, ts, **kw)
    # ---- documented rejections -----------------------------------------------------
    if ts.num_sites == 0 or sel not in SELECTIONS:
        if st_ == "rejected":
            ctx.discard("expected rejection: " + ("no sites" if ts.num_sites == 0 else "bad node_selection"))
            return []
        return [Violation("missing_rejection:" + ("no_sites" if ts.num_sites == 0 else "node_selection"),
                          f"{st_}: {got!r}")]
    if unconstrained and unc is None:
        ctx.label("mn_absent")
        if st_ == "rejected":
            ctx.discard("expected rejection: no mn metadata")
            return []
        if st_ == "ok":
            return [Violation("missing_mn_accepted", "unconstrained=True returned a result although a non-sample node has no mn")]
        return [Violation("missing_mn_not_ValueError:" + type(got).__name__,
                          f"unconstrained=True without mn metadata must be rejected with ValueError, got {got!r}")]
    if st_ != "ok":
        if unconstrained and struct_by_tsdate:
            return [Violation("struct_mn_unreadable:" + type(got).__name__,
                              f"tsdate.date wrote mn into the input's struct node schema but sites_time_from_ts("
                              f"unconstrained=True) cannot read it: {got!r}")]
        return [Violation("raised:" + exc_key(got), f"sites_time_from_ts(**{kw!r}) raised {got!r}")]
    ages = unc if unconstrained else ts.nodes_time
    exp, nt = oracle_sites_time(ts, ages, sel, min_time)
    if nt:
        ctx.mark_nontrivial()
    if unconstrained and not np.array_equal(unc, ts.nodes_time):
        ctx.label("mn_differs_from_node_time")
    got = np.asarray(got, dtype=float)
    V = []
    if got.shape != exp.shape:
        return [Violation("shape", f"{got.shape} vs {exp.shape}")]
    if np.any(np.isnan(exp)):
        ctx.label("site_without_mutations")
    if not np.array_equal(np.isnan(got), np.isnan(exp)):
        j = int(np.flatnonzero(np.isnan(got) != np.isnan(exp))[0])
        V.append(Violation("nan_pattern", f"site {j} ({len(ts.site(j).mutations)} mutations): got {got[j]!r} expected {exp[j]!r}"))
        return V
    ok = ~np.isnan(exp)
    if sel in ("child", "parent"):
        bad = ok & (got != exp)
    else:
        bad = ok & (np.abs(got - exp) > RTOL * np.maximum(np.abs(exp), np.abs(got)))
    if bad.any():
        j = int(np.flatnonzero(bad)[0])
        site = ts.site(j)
        tree = ts.at(site.position)
        detail = [(m.node, float(ages[m.node]), tree.parent(m.node),
                   None if tree.parent(m.node) < 0 else float(ages[tree.parent(m.node)])) for m in site.mutations]
        if exp[j] == min_time and got[j] < exp[j]:
            key = "min_time_not_applied"
        elif got[j] == min_time and exp[j] > min_time:
            key = "min_time_overrides"
        else:
            key = f"site_time_wrong:{sel}:{'unconstrained' if unconstrained else 'constrained'}"
        V.append(Violation(key, f"site {j}: got {got[j]!r}, definition gives {exp[j]!r} (node_selection={sel}, min_time={min_time}, "
                           f"unconstrained={unconstrained}); mutations (node, age, parent, parent age): {detail[:4]}"))
    return V


def describe(case):
    if case["kind"] == "sampledata":
        return dict(kind="sampledata", ploidy=case["ploidy"], times=case["times"], n_sites=len(case["sites"]))
    d = dict(kind=case["kind"], cfg=case["cfg"], ts=G.ts_summary(case["ts"]))
    if case["kind"] == "dated":
        d.update(method=case["method"], fam=case["fam"])
    else:
        d.update(md=case["md"])
    return d
