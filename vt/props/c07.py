"""C07 — rescaling genome coordinates and mutation rate together leaves dates unchanged.

Oracle (M): run A = date(ts, mu, ...) and run B = date(ts', mu/c, ...) where ts' has
sequence_length, every edge endpoint and every site position multiplied by c (vt.gen.ts.scale_coords)
and all other parameters identical. Both runs must end in the same outcome class; when both return,
node times, mutation times, "mn"/"vr" metadata and the fit's posterior moments are unchanged:

* c = 2^k (|k| <= 40): bit-exact (span*c and mu/c are exact, every product mu*span is identical);
* other c: relative tolerance 1e-6 with the confirmation and tie rules of vt.oracle.equivar_c.judge
  (see C06). A non-power-of-two factor may round two distinct coordinates together (a site onto
  the next breakpoint): such transformed inputs are outside the domain and discarded (counted).

Calibration on the unchanged tree (1500 cases, seed 3; 850 non-power-of-two pairs): worst relative
deviation 1.1e-7 (variational_gamma, Newton stop at sqrt(eps)), 4.5e-13 (inside_outside), 0
(maximization); tolerance 1e-6. Power-of-two factors: 650 pairs, 0 mismatches of any bit.
"""

import numpy as np
from hypothesis import strategies as st

from vt.gen import ts as G
from vt.oracle import equivar_c as E
from vt.runner import Violation

ID = "C07"
LEVEL = "exploration"
RULE = (
    "cases = (generated tree sequence: simulated/built, recombining, polytomies, finite sites, continuous and "
    "integer coordinates, L in 1..1e4; for variational_gamma also historical samples and diploid individuals) x "
    "method x drawn configuration (as C06: EP iterations, rescaling_intervals in {0,2,5,1000}, both rescaling "
    "targets, unphased singletons; Ne float / history / prior grids, lognorm/gamma, log/linear space) x factor c "
    "(half 2^k with |k|<=40, half log-uniform in [1e-9,1e9]); non-trivial = input has >= 2 trees and >= 3 "
    "mutations and both runs returned (or the pair is reported as a violation); distinct by SHA-1 of (tables, configuration, c)"
)
ASSUMPTIONS = [
    "only coordinates and the mutation rate are transformed; node times, eps, min_branch_length, population size "
    "and timepoints are identical in both runs",
    "non-power-of-two factors that merge a site with a breakpoint or change the number of trees are discarded "
    "(the transformed input is then a different genealogy)",
    "both runs raising the same exception class counts as agreement and is discarded; which inputs may raise "
    "belongs to C35",
    "non-power-of-two factors: tolerance 1e-6 with confirmation at six factors c(1+-g*2^-20) and a tie test at "
    "sixteen generic factors 1+-g*2^-20 (g full-mantissa constants); cases with a singleton phase within 1e-9 of 0.5 are discarded for such factors",
    "numpy/tskit/msprime trusted",
]
TOL = 1e-6


def budget(tier):
    if tier == "quick":
        return dict(examples=200, shards=4)
    return dict(examples=500, shards=16)


@st.composite
def strategy_(draw, tier):
    method = draw(st.sampled_from(E.METHODS))
    ts, diploid = draw(E.input_ts(tier, method))
    cfg = draw(E.config(method, allow_unphased=diploid))
    c, pow2 = draw(E.factor())
    return dict(ts=ts, cfg=cfg, c=c, pow2=pow2)


def strategy(tier):
    return strategy_(tier)


def check(case, ctx):
    ts, cfg, c, pow2 = case["ts"], case["cfg"], case["c"], case["pow2"]
    method = cfg["method"]
    ctx.label("method=" + method, "c=2^k" if pow2 else "c=real",
              "c>1" if c > 1 else "c<1",
              "L<=10" if ts.sequence_length <= 10 else "L<=1000" if ts.sequence_length <= 1000 else "L>1000")
    if method == "variational_gamma":
        ctx.label(f"rescaling_intervals={cfg['rescaling_intervals']}",
                  "historical" if not G.is_contemporaneous(ts) else "contemporaneous",
                  "match_segsites" if cfg["match_segregating_sites"] else "match_pathlength")
        if not cfg["singletons_phased"]:
            ctx.label("unphased_singletons")
    else:
        ctx.label("prior=" + cfg["prior"], "space=" + cfg["probability_space"])
    verdict, info = E.judge(ts, cfg, c, pow2, "coord", ctx, TOL)
    if verdict == "discard":
        ctx.discard(info)
        return []
    if ts.num_trees >= 2 and ts.num_mutations >= 3:
        ctx.mark_nontrivial()  # also for violations: the runner's too-few-cases test precedes its verdict
    if verdict == "violation":
        key, msg = info
        return [Violation(f"coordinates:{method}:{key}", f"{method}, c={c!r} ({'2^k' if pow2 else 'real'}): {msg}",
                          cfg=E.describe_cfg(cfg))]
    if not pow2:
        r = info
        ctx.label("relerr:" + ("vg" if method == "variational_gamma" else "discrete") + ":" +
                  ("<=1e-12" if r <= 1e-12 else "<=1e-9" if r <= 1e-9 else "<=1e-6"))
        k = "max_relerr_" + method  # kept as a 1-element list: the runner concatenates lists across shards
        ctx.extra[k] = [max(ctx.extra.get(k, [0.0])[0], r)]
    return []


def finish(ctx, tier):
    for k in list(ctx.extra):
        if k.startswith("max_relerr_") and isinstance(ctx.extra[k], list):
            ctx.extra[k] = float(max(ctx.extra[k]))
    # DESIGN §4: tie discards must stay rare, otherwise the generator sits on discontinuities and
    # the run is inconclusive (harness error), not a pass
    ties = sum(v for k, v in ctx.discards.items() if k.startswith("numerical tie"))
    if ctx.evaluations >= 200 and ties > 0.02 * ctx.evaluations and not ctx.buckets:  # never mask a violation
        ctx.harness_errors.append(f"{ties} numerical-tie discards in {ctx.evaluations} cases (> 2 %)")


def describe(case):
    return dict(cfg=E.describe_cfg(case["cfg"]), c=case["c"], pow2=case["pow2"], ts=G.ts_summary(case["ts"]))
