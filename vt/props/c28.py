"""C28 — preprocess_ts removes only data-free regions and preserves genotypes.

Oracle (R): the deletion set D is computed from the statement (flanks [0,s0-1) and [s_last+1,L)
when erase_flanks and non-empty, gaps [s_i+1, s_{i+1}-1) when s_{i+1}-s_i >= minimum_gap and
non-empty; or exactly the user's delete_intervals).  Then, with tskit only: kept sites, samples in
order, genotypes at kept sites, the local tree on the samples (clades + node times) at every position
outside D, no edges inside D, `simplify()` is a no-op on node/edge counts, contiguity of every
non-sample node when split_disjoint is on, and the documented rejections.
"""

import logging

import numpy as np
import tskit
from hypothesis import strategies as st

import tsdate

from vt.common import call, exc_key, node_is_sample
from vt.gen import ts as G
from vt.gen import util_h as H
from vt.runner import Violation

ID = "C28"
LEVEL = "exploration"
RULE = (
    "cases = generated tree sequence (simulated/built, historical or multi-root or missing data, "
    "coordinates scaled so that sites are dense or sparse relative to the +-1 margins, invariant "
    "sites, mutations above roots and isolated samples, optional populations/individuals) x "
    "(minimum_gap incl. exactly an observed inter-site distance, erase_flanks/remove_telomeres | "
    "user delete_intervals as list/tuple/ndarray | both | no sites) x split_disjoint x filter flags "
    "x record_provenance; non-trivial = at least one interval with edges is deleted and a node is "
    "split or removed; distinct by SHA-1 of (tables, configuration)"
)
ASSUMPTIONS = [
    "tskit trusted (variants, trees, simplify used only to test simplified-ness)",
    "ndarray delete_intervals only with record_provenance=False (json.dumps TypeError is C33/F9)",
    "inputs on which split_disjoint_nodes crashes because a mutation sits on a node without an edge "
    "(C29's known finding F7) are discarded, identified by re-running with split_disjoint=False",
    "filter_sites=True: a site is dropped iff none of its mutations is above a sample (tskit semantics)",
]
SPLIT = int(tsdate.NODE_SPLIT_BY_PREPROCESS)
logging.getLogger("tsdate").addHandler(logging.NullHandler())  # keep "could not set metadata" warnings off stderr


def budget(tier):
    if tier == "quick":
        return dict(examples=300, shards=4, time_s=2400)  # time_s: only a guard for overloaded machines
    return dict(examples=2500, shards=16)


@st.composite
def strategy_(draw, tier):
    ts = draw(G.general_ts(tier=tier, contemporaneous=draw(st.booleans()), single_root=draw(st.booleans()),
                           min_muts=1, missing=draw(st.booleans())))
    scale = draw(st.sampled_from([1, 1, 8, 1000]))
    if scale != 1:
        ts = G.scale_coords(ts, float(scale))
    if draw(st.integers(0, 2)) == 0:
        ts = G.add_root_and_isolated_mutations(ts, draw(st.integers(0, 1)), draw(st.integers(0, 1)),
                                               draw(st.lists(st.integers(0, 7), min_size=1, max_size=4)))
    L = ts.sequence_length
    n_inv = draw(st.sampled_from([0, 0, 1, 2, 3]))
    if n_inv:
        ts = H.add_sites(ts, [(L * draw(st.integers(0, 63)) / 64.0, None) for _ in range(n_inv)])
    if draw(st.integers(0, 3)) == 0:
        ts = G.decorate(ts, node_family=draw(st.sampled_from(["json_permissive", "none_bytes", "struct_plain"])),
                        mut_family="json_permissive", populations=2, individuals=(2,), extra=False)
        tables = ts.dump_tables()
        tables.populations.add_row(metadata={"name": "unused"})
        tables.individuals.add_row(metadata={"id": "unused"})
        ts = tables.tree_sequence()
    kind = draw(st.sampled_from(["computed"] * 6 + ["user"] * 3 + ["both", "nosites"]))
    cfg = dict(kind=kind)
    sites = ts.sites_position
    if kind in ("computed", "nosites", "both"):
        mode = draw(st.sampled_from(["none", "value", "value", "exact", "exact"]))
        if mode == "value" or (mode == "exact" and len(sites) < 2):
            cfg["minimum_gap"] = draw(st.sampled_from([0, 0.5, 1, 2, 2.5, 5, 50, 1000.0]))
        elif mode == "exact":
            gaps = sites[1:] - sites[:-1]
            cfg["minimum_gap"] = float(gaps[draw(st.integers(0, len(gaps) - 1))])
        ef = draw(st.sampled_from([None, None, True, False]))
        if ef is not None:
            alias = draw(st.integers(0, 5)) == 0
            cfg["remove_telomeres" if alias else "erase_flanks"] = ef
            if alias and draw(st.integers(0, 3)) == 0:
                cfg["erase_flanks"] = draw(st.booleans())  # both given -> ValueError
    if kind in ("user", "both"):
        k = draw(st.integers(0, 3))
        bps = ts.breakpoints(as_array=True)
        pts = []
        for _ in range(2 * k):
            how = draw(st.sampled_from(["frac", "site", "site+1", "site-1", "bp", "end"]))
            if how == "frac" or (how.startswith("site") and len(sites) == 0):
                x = L * draw(st.integers(0, 32)) / 32.0
            elif how.startswith("site"):
                x = float(sites[draw(st.integers(0, len(sites) - 1))]) + {"site": 0, "site+1": 1, "site-1": -1}[how]
            elif how == "bp":
                x = float(bps[draw(st.integers(0, len(bps) - 1))])
            else:
                x = draw(st.sampled_from([0.0, float(L)]))
            if 0 <= x <= L:
                pts.append(x)
        pts = sorted(set(pts))
        ivs = [[pts[i], pts[i + 1]] for i in range(0, len(pts) - 1, 2)]
        if kind == "both" and not ivs:
            ivs = [[0.0, L / 4]]
        cfg["delete_intervals"] = ivs
        cfg["container"] = draw(st.sampled_from(["list", "list", "tuple", "ndarray"]))
        if kind == "both" and "minimum_gap" not in cfg and "erase_flanks" not in cfg and "remove_telomeres" not in cfg:
            cfg["minimum_gap"] = 1.0
    if kind == "nosites":
        tables = ts.dump_tables()
        tables.sites.clear()
        tables.mutations.clear()
        ts = tables.tree_sequence()
    cfg["split_disjoint"] = draw(st.sampled_from([None, True, False, False]))
    for f in ("filter_sites", "filter_populations", "filter_individuals"):
        v = draw(st.sampled_from([None, None, None, True, False]))
        if v is not None:
            cfg[f] = v
    cfg["record_provenance"] = draw(st.sampled_from([None, True, False]))
    return dict(ts=ts, cfg=cfg)


def strategy(tier):
    return strategy_(tier)


def expected_deletion(ts, cfg):
    """D from the statement. Returns (intervals, user_given)."""
    if "delete_intervals" in cfg:
        return [tuple(iv) for iv in cfg["delete_intervals"]], True
    s = ts.sites_position
    L = ts.sequence_length
    ef = cfg.get("erase_flanks", cfg.get("remove_telomeres"))
    ef = True if ef is None else ef
    mg = cfg.get("minimum_gap")
    mg = 1000000 if mg is None else mg
    D = []
    if ef:
        if s[0] - 1 > 0:
            D.append((0.0, float(s[0] - 1)))
        if s[-1] + 1 < L:
            D.append((float(s[-1] + 1), float(L)))
    for i in range(len(s) - 1):
        if s[i + 1] - s[i] >= mg and s[i + 1] - 1 > s[i] + 1:
            D.append((float(s[i] + 1), float(s[i + 1] - 1)))
    return sorted(D), False


def build_kwargs(cfg):
    kw = {k: cfg[k] for k in ("minimum_gap", "erase_flanks", "remove_telomeres", "split_disjoint",
                              "filter_sites", "filter_populations", "filter_individuals") if k in cfg}
    if cfg["record_provenance"] is not None:
        kw["record_provenance"] = cfg["record_provenance"]
    if "delete_intervals" in cfg:
        ivs = cfg["delete_intervals"]
        c = cfg["container"]
        if c == "tuple":
            kw["delete_intervals"] = tuple(tuple(iv) for iv in ivs)
        elif c == "ndarray":
            kw["delete_intervals"] = np.array(ivs, dtype=float).reshape(-1, 2)
            kw["record_provenance"] = False
        else:
            kw["delete_intervals"] = [list(iv) for iv in ivs]
    return kw


def in_any(x, ivs):
    return any(a <= x < b for a, b in ivs)


def check(case, ctx):
    ts, cfg = case["ts"], case["cfg"]
    kind = cfg["kind"]
    kw = build_kwargs(cfg)
    ctx.label("kind=" + kind, "split_disjoint=" + str(cfg["split_disjoint"]))
    if "container" in cfg:
        ctx.label("container=" + cfg["container"])
    for f in ("filter_sites", "filter_populations", "filter_individuals"):
        if cfg.get(f):
            ctx.label(f)
    both_flank = "remove_telomeres" in cfg and "erase_flanks" in cfg
    expect_reject = kind in ("both", "nosites") or both_flank or (kind == "computed" and ts.num_sites == 0)
    status, out = call(tsdate.preprocess_ts, ts, **kw)
    if expect_reject:
        ctx.label("expected_rejection")
        if status == "rejected":
            ctx.discard("expected rejection: " + kind + ("+alias" if both_flank else ""))
            return []
        if status == "ok":
            return [Violation("missing_rejection:" + ("alias" if both_flank else kind),
                              f"preprocess_ts accepted {kw!r} on a ts with {ts.num_sites} sites")]
        return [Violation("raised:" + exc_key(out), f"preprocess_ts raised {out!r} instead of ValueError")]
    if status == "rejected":
        return [Violation("unexpected_rejection:" + exc_key(out), f"preprocess_ts rejected {kw!r}: {out!r}")]
    split = cfg["split_disjoint"] is not False
    if status == "internal":
        if split:
            kw2 = dict(kw, split_disjoint=False)
            st2, out2 = call(tsdate.preprocess_ts, ts, **kw2)
            if st2 == "ok" and H.edgeless_mutation(out2):
                ctx.discard("split_disjoint crash on mutation without edge (C29 finding F7)")
                return []
        return [Violation("raised:" + exc_key(out), f"preprocess_ts raised {out!r} for {kw!r}")]

    V = []
    D, user = expected_deletion(ts, cfg)
    L = ts.sequence_length
    if "minimum_gap" in cfg and len(ts.sites_position) > 1:
        gaps = ts.sites_position[1:] - ts.sites_position[:-1]
        if np.any(gaps == cfg["minimum_gap"]):
            ctx.label("minimum_gap==some_gap")
    if D:
        ctx.label("deleted>=1")
        if any(a == 0 for a, b in D):
            ctx.label("left_flank_deleted")
        if any(b == L for a, b in D):
            ctx.label("right_flank_deleted")
        if any(a > 0 and b < L for a, b in D):
            ctx.label("inner_gap_deleted")
    else:
        ctx.label("deleted=0")
    if out.sequence_length != L:
        return [Violation("sequence_length", f"{L} -> {out.sequence_length}")]

    # ---- sites ---------------------------------------------------------------------
    pos = ts.sites_position
    outside = np.array([not (user and in_any(x, D)) for x in pos], dtype=bool)
    if not user and any(in_any(x, D) for x in pos):
        raise AssertionError("oracle bug: computed interval contains a site")
    keep = outside.copy()
    if cfg.get("filter_sites"):
        for site in ts.sites():
            if keep[site.id]:
                tree = ts.at(site.position)
                keep[site.id] = any(tree.num_samples(m.node) > 0 for m in site.mutations)
    exp_pos = pos[keep]
    if not np.array_equal(out.sites_position, exp_pos):
        lost = sorted(set(exp_pos.tolist()) - set(out.sites_position.tolist()))
        extra = sorted(set(out.sites_position.tolist()) - set(exp_pos.tolist()))
        key = "site_lost" if lost else "site_not_removed"
        V.append(Violation(key + (":filter_sites" if cfg.get("filter_sites") else ""),
                           f"sites lost {lost[:4]} / unexpected {extra[:4]}; deletion set {D[:4]}, kwargs {kw!r}"))
    else:
        ids = np.flatnonzero(keep)
        for j, i in enumerate(ids):
            a, b = ts.site(int(i)), out.site(j)
            if a.ancestral_state != b.ancestral_state or a.metadata != b.metadata:
                V.append(Violation("site_row_changed", f"site at {a.position}"))
                break
        # ---- genotypes ---------------------------------------------------------------
        gin = [g for g, k in zip(H.genotype_strings(ts), keep) if k]
        gout = H.genotype_strings(out)
        if gin != gout:
            bad = [a[0] for a, b in zip(gin, gout) if a != b]
            V.append(Violation("genotypes_changed", f"genotypes differ at positions {bad[:4]}"))
    if ts.num_sites and not np.all(keep):
        ctx.label("site_removed")

    # ---- samples -------------------------------------------------------------------
    sin, sout = ts.samples(), out.samples()
    if len(sin) != len(sout):
        V.append(Violation("samples_count", f"{len(sin)} -> {len(sout)}"))
        return V
    for a, b in zip(sin, sout):
        na, nb = ts.node(int(a)), out.node(int(b))
        if na.time != nb.time or na.metadata != nb.metadata or (nb.flags & ~SPLIT) != na.flags:
            V.append(Violation("sample_changed", f"sample {a}->{b}: {na} vs {nb}"))
            break
        if not cfg.get("filter_populations") and na.population != nb.population:
            V.append(Violation("sample_population", f"sample {a}->{b}"))
            break
        if not cfg.get("filter_individuals") and na.individual != nb.individual:
            V.append(Violation("sample_individual", f"sample {a}->{b}"))
            break
    for name, n_in, n_out in (("populations", ts.num_populations, out.num_populations),
                              ("individuals", ts.num_individuals, out.num_individuals)):
        if cfg.get("filter_" + name):
            if n_out > n_in:
                V.append(Violation("filter_" + name, f"{n_in} -> {n_out}"))
        elif n_out != n_in:
            V.append(Violation("unfiltered_" + name + "_changed", f"{n_in} -> {n_out} although filter_{name} is off"))

    # ---- local trees -----------------------------------------------------------------
    pts = set(ts.breakpoints(as_array=True).tolist()) | set(out.breakpoints(as_array=True).tolist())
    for a, b in D:
        pts.add(a)
        pts.add(b)
    pts = sorted(p for p in pts if 0 <= p <= L)
    si_in, si_out = H.sample_index_array(ts), H.sample_index_array(out)
    cache_in, cache_out = {}, {}
    tin, tout = ts.first(), out.first()
    removed_edges = False
    for x0, x1 in zip(pts[:-1], pts[1:]):
        tin.seek(x0)
        tout.seek(x0)
        if in_any(x0, D):
            if tin.num_edges:
                removed_edges = True
            if tout.num_edges:
                V.append(Violation("topology_left_in_deleted_region", f"[{x0},{x1}) lies in the deletion set {D[:4]} but the output tree has {tout.num_edges} edges"))
                break
            continue
        if tin.index not in cache_in:
            cache_in[tin.index] = H.tree_signature(tin, si_in)
        if tout.index not in cache_out:
            cache_out[tout.index] = H.tree_signature(tout, si_out)
        a, b = cache_in[tin.index], cache_out[tout.index]
        if a != b:
            if tout.num_edges == 0 and tin.num_edges:
                key = "topology_removed_outside_deletion_set"
            elif set(a) != set(b):
                key = "local_tree_changed"
            else:
                key = "node_time_changed"
            V.append(Violation(key, f"[{x0},{x1}) is outside the deletion set {D[:4]} (sites {pos[:6].tolist()}..., kwargs {kw!r}) "
                               f"but the tree on the samples differs: {len(a)} vs {len(b)} clades"))
            break

    # ---- simplified ----------------------------------------------------------------
    s = out.simplify(filter_sites=False, filter_populations=False, filter_individuals=False)
    if (s.num_nodes, s.num_edges) != (out.num_nodes, out.num_edges):
        V.append(Violation("not_simplified", f"simplify changes nodes/edges {out.num_nodes, out.num_edges} -> {s.num_nodes, s.num_edges}"))

    # ---- contiguity ----------------------------------------------------------------
    pieces = H.node_pieces(out)
    o_is_s = node_is_sample(out)
    disjoint = [u for u in range(out.num_nodes) if not o_is_s[u] and len(pieces[u]) > 1]
    n_flag = int(np.sum((out.nodes_flags & SPLIT) > 0))
    if split:
        if disjoint:
            V.append(Violation("ancestry_gap_with_split_disjoint", f"node {disjoint[0]} has pieces {pieces[disjoint[0]][:3]} (split_disjoint={cfg['split_disjoint']})"))
        if n_flag:
            ctx.label("node_split")
    elif disjoint:
        ctx.label("disjoint_left(split off)")
    if removed_edges and (n_flag or disjoint or out.num_nodes != ts.num_nodes):
        ctx.mark_nontrivial()
    return V


def describe(case):
    cfg = dict(case["cfg"])
    return dict(ts=G.ts_summary(case["ts"]), cfg=cfg)
