"""C24 — per-edge mutation, span and singleton-block tallies are exact.

Oracle (R): direct per-tree tally with tskit.Tree (vt/oracle/tally_g.py):
 * count_mutations(ts) / util.mutation_span_array(ts): a mutation counts on the edge above its
   node at its position, on no edge above a root / on an isolated node; span = right - left;
 * count_mutations(ts, size_biased=True): every mutation and every unit of span weighted by
   the number of samples below in that local tree;
 * count_mutations(ts, node_is_sample=mask, ...): the same with the flagged nodes as the set;
 * block_singletons(ts, unphased): per unphased individual the maximal runs of trees with an
   unchanged pair of leaf edges, their span and the singletons inside.

Comparisons: mutation->edge maps, mutation counts, block spans, block counts: exact
(integers / the same single subtraction). Spans from count_mutations: the code accumulates
(L - left) - (L - right) (times the sample count, once per event below the edge), not
right - left, so a tolerance of SPAN_TOL * L * max(1, #flagged) absolute is used. Calibration on
the unchanged tree (seeds 1..5 quick, 9e3 inputs, default sample set; explicit masks measured with
fixes_proposed/C24_mask_assert.patch applied): worst observed |err| / (L * max(1, #flagged)) < 6.5e-16
(evidence field: sum over shards of the per-shard maxima); SPAN_TOL = 1e-13 leaves a margin > 100x and is
many orders of magnitude below the effect of attributing a single tree span to the wrong edge.
"""

import numpy as np
import tskit
from hypothesis import strategies as st

from tsdate import phasing, rescaling, util

from vt.common import call, exc_key, node_is_sample
from vt.gen import ts as G
from vt.oracle import tally_g as O
from vt.runner import Violation

ID = "C24"
LEVEL = "exploration"
RULE = (
    "cases = generated tree sequence (simulated or built; recombination, polytomies, historical samples, "
    "locally isolated samples, regions without edges, mutations above roots / on isolated samples / exactly "
    "at tree boundaries) x drawn boolean node mask of length num_nodes x drawn set of unphased diploid "
    "individuals (others haploid/triploid/phased); non-trivial = >= 2 trees, >= 1 mutation on an edge and "
    "(mask differs from the sample flags or >= 1 singleton block expected); distinct by SHA-1 of "
    "(tables, mask, unphased flags)"
)
ASSUMPTIONS = [
    "tskit tree iteration (edge_array, parent_array, sites) trusted",
    "node masks are numpy bool arrays of length num_nodes; unphased individuals are diploid and contemporary "
    "(anything else is rejected by block_singletons with a ValueError and not generated)",
    "spans from count_mutations compared at 1e-13 * sequence_length * max(1, #flagged) absolute (see module docstring)",
]

SPAN_TOL = 1e-13


def budget(tier):
    if tier == "quick":
        return dict(examples=350, shards=4)
    return dict(examples=2500, shards=16)


MASK_STYLES = ["random", "random", "all_true", "all_false", "samples", "sample_subset", "internal_only",
               "samples_plus_internal"]


@st.composite
def strategy_(draw, tier):
    contemporaneous = draw(st.sampled_from([True, True, False]))
    ts = draw(G.general_ts(tier=tier, contemporaneous=contemporaneous, single_root=draw(st.booleans()),
                           min_muts=draw(st.sampled_from([0, 1, 4])), allow_polytomy=True,
                           missing=False))
    # regions without any edge
    if draw(st.integers(0, 4)) == 0:
        a, b = sorted([draw(st.floats(0, 1)), draw(st.floats(0, 1))])
        L = ts.sequence_length
        if b * L > a * L:
            ts = ts.delete_intervals([[a * L, b * L]], simplify=False)
    # locally isolated samples (missing data), kept unsimplified
    for _ in range(draw(st.sampled_from([0, 0, 1, 1, 2, 3]))):
        if ts.num_edges > 0:
            whole = draw(st.integers(0, 5)) == 0
            lo, hi = (0.0, 1.0) if whole else (draw(st.floats(0, 1)), draw(st.floats(0, 1)))
            ts = G.remove_leaf_edge(ts, draw(st.integers(0, 100)), lo, hi)
    # mutations above roots and on isolated samples
    n_root, n_iso = draw(st.sampled_from([(0, 0), (0, 0), (1, 0), (0, 1), (1, 1), (2, 2)]))
    if n_root or n_iso:
        ts = G.add_root_and_isolated_mutations(ts, n_root, n_iso, draw(st.lists(st.integers(0, 15), min_size=1, max_size=6)))
    # sites without mutations; in 1 case of 2 exactly as many as make the site and mutation tables the
    # same length although some sites carry several mutations (boundary class: equal table sizes)
    if draw(st.integers(0, 3)) == 0 and ts.num_sites > 0:
        k = ts.num_mutations - ts.num_sites if draw(st.booleans()) else draw(st.integers(1, 3))
        if k > 0:
            t = ts.dump_tables()
            used = set(t.sites.position)
            L = ts.sequence_length
            added = 0
            for i in range(8 * k):
                pos = L * ((0.137 + i * 0.6180339887498949) % 1.0)
                if pos not in used and added < k:
                    used.add(pos)
                    t.sites.add_row(position=pos, ancestral_state="M")
                    added += 1
            t.sort()
            t.build_index()
            t.compute_mutation_parents()
            ts = t.tree_sequence()
    # individuals
    pattern = draw(st.lists(st.sampled_from([2, 2, 2, 2, 1, 3, 0]), min_size=1, max_size=5))
    ts = G.add_individuals(ts, pattern)
    bits = draw(st.lists(st.booleans(), min_size=8, max_size=8))
    force = draw(st.sampled_from(["drawn", "drawn", "all", "none"]))
    unphased = np.zeros(ts.num_individuals, dtype=bool)
    for ind in ts.individuals():
        valid = ind.nodes.size == 2 and bool(np.all(ts.nodes_time[ind.nodes] == 0.0))
        want = True if force == "all" else False if force == "none" else bits[ind.id % 8]
        unphased[ind.id] = valid and want
    # node mask
    n = ts.num_nodes
    style = draw(st.sampled_from(MASK_STYLES))
    is_s = node_is_sample(ts)
    if style == "random":
        mask = np.array(draw(st.lists(st.booleans(), min_size=n, max_size=n)), dtype=bool)
    elif style == "all_true":
        mask = np.ones(n, dtype=bool)
    elif style == "all_false":
        mask = np.zeros(n, dtype=bool)
    elif style == "samples":
        mask = is_s.copy()
    elif style == "sample_subset":
        keep = np.array(draw(st.lists(st.booleans(), min_size=n, max_size=n)), dtype=bool)
        mask = is_s & keep
    elif style == "internal_only":
        mask = ~is_s
    else:
        extra = np.array(draw(st.lists(st.booleans(), min_size=n, max_size=n)), dtype=bool)
        mask = is_s | extra
    return dict(ts=ts, mask=np.ascontiguousarray(mask), unphased=unphased, mask_style=style)


def strategy(tier):
    return strategy_(tier)


# ---------------------------------------------------------------------------------


def _cmp_tally(tag, res, exp, ts, nflag, out, exact_span=False):
    """compare (edges_stats, mutations_edge) against oracle triple"""
    stats, medge = res
    stats = np.asarray(stats)
    medge = np.asarray(medge)
    emut, espan, emedge = exp
    if stats.shape != (ts.num_edges, 2) or medge.shape != (ts.num_mutations,):
        out.append(Violation(f"{tag}:shape", f"{tag}: shapes {stats.shape}, {medge.shape}"))
        return
    if not np.array_equal(medge, emedge):
        m = int(np.flatnonzero(medge != emedge)[0])
        pos = ts.sites_position[ts.mutations_site[m]]
        kind = "edge_instead_of_null" if emedge[m] == tskit.NULL else "null_instead_of_edge" if medge[m] == tskit.NULL else "wrong_edge"
        out.append(Violation(f"{tag}:mutation_edge:{kind}", f"{tag}: mutation {m} (node {ts.mutations_node[m]}, position {pos!r}) "
                             f"mapped to edge {int(medge[m])}, the edge above its node there is {int(emedge[m])}"))
    if not np.array_equal(stats[:, 0], emut):
        e = int(np.flatnonzero(stats[:, 0] != emut)[0])
        out.append(Violation(f"{tag}:mutation_count", f"{tag}: edge {e} ({ts.edges_parent[e]}->{ts.edges_child[e]}, "
                             f"[{ts.edges_left[e]!r},{ts.edges_right[e]!r})) tally {stats[e, 0]!r}, direct {emut[e]!r}"))
    if exact_span:
        bad = stats[:, 1] != espan
    else:
        tol = SPAN_TOL * ts.sequence_length * max(1, nflag)
        bad = ~(np.abs(stats[:, 1] - espan) <= tol)
    if np.any(bad):
        e = int(np.flatnonzero(bad)[0])
        out.append(Violation(f"{tag}:span", f"{tag}: edge {e} ({ts.edges_parent[e]}->{ts.edges_child[e]}, "
                             f"[{ts.edges_left[e]!r},{ts.edges_right[e]!r})) span {stats[e, 1]!r}, direct {espan[e]!r}"))
    return


def span_error(res, exp, ts, nflag):
    stats = np.asarray(res[0])
    if stats.shape != (ts.num_edges, 2) or ts.num_edges == 0:
        return 0.0
    return float(np.max(np.abs(stats[:, 1] - exp[1])) / (ts.sequence_length * max(1, nflag)))


def check_blocks(ts, unphased, ctx, out):
    blocks, mblock, incomplete = O.direct_blocks(ts, unphased)
    cls = "blocks:incomplete_pair" if incomplete else "blocks"
    if incomplete:
        ctx.label("blocks:incomplete_pair_input")
    if unphased.any():
        ctx.label("blocks:some_unphased")
    if blocks:
        ctx.label("blocks:expected>=1")
    if len(blocks) >= 3:
        ctx.label("blocks:expected>=3")
    if any(b["singletons"] > 0 for b in blocks):
        ctx.label("blocks:with_singletons")
    status, res = call(phasing.block_singletons, ts, unphased)
    if status != "ok":
        out.append(Violation(f"{cls}:raised:{exc_key(res)}", f"block_singletons raised {res!r} "
                             f"(unphased individuals {np.flatnonzero(unphased).tolist()})"))
        return len(blocks)
    stats, edges, mb = (np.asarray(x) for x in res)
    if stats.ndim != 2 or edges.ndim != 2 or stats.shape[0] != edges.shape[0] or mb.shape != (ts.num_mutations,):
        out.append(Violation(f"{cls}:shape", f"shapes {stats.shape} {edges.shape} {mb.shape}"))
        return len(blocks)
    got = sorted((int(min(e)), int(max(e)), float(s[1]), float(s[0])) for e, s in zip(edges, stats))
    exp = sorted((b["edges"][0], b["edges"][1], float(b["span"]), float(b["singletons"])) for b in blocks)
    if got != exp:
        ge = sorted(g[:2] for g in got)
        ee = sorted(g[:2] for g in exp)
        if ge != ee:
            kind = "edge_pairs"
        elif sorted(g[:3] for g in got) != sorted(g[:3] for g in exp):
            kind = "span"
        else:
            kind = "singletons"
        diff = [g for g in got if g not in exp][:2], [g for g in exp if g not in got][:2]
        out.append(Violation(f"{cls}:{kind}", f"blocks (edge, edge, span, singletons): returned-not-expected {diff[0]}, "
                             f"expected-not-returned {diff[1]} ({len(got)} returned, {len(exp)} expected)"))
        return len(blocks)
    # mutation -> block map: a mutation inside a block points to a row with that block's edges;
    # every other mutation points to no block
    for m in range(ts.num_mutations):
        b = int(mb[m])
        if mblock[m] == -1:
            if b != tskit.NULL:
                out.append(Violation(f"{cls}:mutation_map", f"mutation {m} lies in no block but is mapped to block {b}"))
                break
        else:
            want = blocks[mblock[m]]["edges"]
            if b == tskit.NULL or not (0 <= b < edges.shape[0]) or (int(min(edges[b])), int(max(edges[b]))) != want:
                out.append(Violation(f"{cls}:mutation_map", f"mutation {m} mapped to block {b}, expected the block with edges {want}"))
                break
    return len(blocks)


def check(case, ctx):
    ts = case["ts"]
    mask = np.ascontiguousarray(case["mask"], dtype=bool)
    unphased = np.asarray(case["unphased"], dtype=bool)
    out = []
    is_s = node_is_sample(ts)
    ns = int(is_s.sum())
    ctx.label("mask=" + case.get("mask_style", "?"))
    ctx.label("trees>=2" if ts.num_trees >= 2 else "trees=1")
    if not G.is_contemporaneous(ts):
        ctx.label("historical_samples")
    ctx.extra.setdefault("max_span_err", 0.0)

    base = O.direct_tally(ts, is_s, False)
    exact_span = ts.edges_right - ts.edges_left
    n_null = int(np.sum(base[2] == tskit.NULL))
    if n_null:
        ctx.label("mutation_on_no_edge")
    iso = False
    poly = False
    for tree in ts.trees():
        if tree.num_edges == 0:
            ctx.label("tree_without_edges")
            break
    for tree in ts.trees():
        if any(tree.num_children(r) == 0 for r in tree.roots):
            iso = True
        if any(tree.num_children(u) > 2 for u in tree.nodes()):
            poly = True
    if iso:
        ctx.label("isolated_sample")
    if poly:
        ctx.label("polytomy")
    pos = ts.sites_position[ts.mutations_site]
    if ts.num_mutations and np.any(np.isin(pos, ts.breakpoints(as_array=True))):
        ctx.label("mutation_at_tree_boundary")

    # 1. util.mutation_span_array
    status, res = call(util.mutation_span_array, ts)
    if status != "ok":
        out.append(Violation("span_array:raised:" + exc_key(res), f"mutation_span_array raised {res!r}"))
    else:
        _cmp_tally("span_array", res, (base[0], exact_span, base[2]), ts, 1, out, exact_span=True)

    # 2. count_mutations, default sample set
    status, res = call(rescaling.count_mutations, ts)
    if status != "ok":
        out.append(Violation("count:raised:" + exc_key(res), f"count_mutations(ts) raised {res!r}"))
    else:
        _cmp_tally("count", res, (base[0], exact_span, base[2]), ts, 1, out)
        ctx.extra["max_span_err"] = max(ctx.extra["max_span_err"], span_error(res, (base[0], exact_span), ts, 1))

    # 3. size-biased, default sample set
    sb = O.direct_tally(ts, is_s, True)
    status, res = call(rescaling.count_mutations, ts, size_biased=True)
    if status != "ok":
        out.append(Violation("sizebiased:raised:" + exc_key(res), f"count_mutations(ts, size_biased=True) raised {res!r}"))
    else:
        _cmp_tally("sizebiased", res, sb, ts, ns, out)
        ctx.extra["max_span_err"] = max(ctx.extra["max_span_err"], span_error(res, sb, ts, ns))

    # 4. explicit sample set
    nflag = int(mask.sum())
    for biased in (False, True):
        tag = "custom_mask_sizebiased" if biased else "custom_mask"
        status, res = call(rescaling.count_mutations, ts, node_is_sample=mask.copy(), size_biased=biased)
        if status != "ok":
            out.append(Violation("custom_mask:raised:" + exc_key(res),
                                 f"count_mutations(ts, node_is_sample=<bool[{mask.size}]>, size_biased={biased}) raised {res!r}"))
            break
        exp = O.direct_tally(ts, mask, biased)
        _cmp_tally(tag, res, exp if biased else (exp[0], exact_span, exp[2]), ts, nflag if biased else 1, out)
        ctx.extra["max_span_err"] = max(ctx.extra["max_span_err"],
                                        span_error(res, exp if biased else (exp[0], exact_span), ts, nflag if biased else 1))

    # 5. singleton blocks
    nblocks = check_blocks(ts, unphased, ctx, out)

    on_edge = ts.num_mutations - n_null
    if ts.num_trees >= 2 and on_edge >= 1 and (not np.array_equal(mask, is_s) or nblocks >= 1):
        ctx.mark_nontrivial()
        ctx.label("nontrivial")
    return out


def describe(case):
    return dict(ts=G.ts_summary(case["ts"]), mask_style=case.get("mask_style"), flagged=int(np.sum(case["mask"])),
                unphased=int(np.sum(case["unphased"])))


def finish(ctx, tier):
    # merged by summation in the runner: not meaningful as a sum, keep as an upper bound note
    if "max_span_err" in ctx.extra:
        ctx.extra["sum_over_shards_of_max_span_err_over_L_times_flagged"] = ctx.extra.pop("max_span_err")
