"""C21 — EP message bookkeeping is consistent after every iteration.

Invariant (H), evaluated by an independent numpy re-summation (never by tsdate's
_assemble_factors): node_posterior[n] == scale[n] * (sum of edge and block messages addressed
to n + prior factor + constraint factor); after iterate() scale == 1; _rescale_factors leaves
node_posterior bit-identical; sample rows stay exactly zero and node_moments() reports their
constraint time. Two drivers: real date() calls with ExpectationPropagation.iterate wrapped
from the harness, and drawn operation sequences on one EP object.
"""

import numpy as np
import tskit
from hypothesis import strategies as st

import tsdate
from tsdate import variational
from tsdate.variational import ExpectationPropagation as EP

from vt.common import call, exc_key, node_is_sample
from vt.gen import ts as G
from vt.runner import Violation

ID = "C21"
LEVEL = "exploration"
RULE = (
    "cases = generated tree sequence (sim/built, polytomies, multi-root, historical/internal samples, "
    "diploid individuals for unphased blocks) x either a real variational_gamma call (iterate wrapped) or a "
    "drawn sequence of EP operations (iterate / block pass / edge pass / prior pass / _rescale_factors) with "
    "drawn max_shape, min_step, regularise; the invariant is evaluated after every operation. Non-trivial = "
    ">= 2 iterations and (some scale < 1 before absorption, i.e. the shape cap fired, or an unphased block exists)"
)
ASSUMPTIONS = [
    "tolerance 1e-9 * sum|terms| per natural parameter (probe: 254 states, 0 deviations at 1e-9)",
    "numpy trusted; the re-summation shares no code with variational._assemble_factors",
    "inputs on which construction raises AssertionError in phasing (isolated node of a diploid individual, "
    "defect F8) are C35's, discarded here",
]
TOL = 1e-9


def budget(tier):
    if tier == "quick":
        return dict(examples=150, shards=4)
    return dict(examples=1500, shards=16)


OPS = ["iterate", "iterate", "iterate", "blocks", "edges", "prior", "rescale_factors"]


def big_star(n, counts, span):
    """one polytomy with n leaves (a node that receives n messages per pass): with a shape cap close
    to 1 its scale underflows within ONE pass, which is the only way to reach the mid-loop
    _rescale_factors() call in propagate_likelihood"""
    t = tskit.TableCollection(sequence_length=span)
    for _ in range(n):
        t.nodes.add_row(flags=tskit.NODE_IS_SAMPLE, time=0)
    root = t.nodes.add_row(time=1.0)
    k = 0
    total = max(1, sum(counts[i % len(counts)] for i in range(n)))
    for i in range(n):
        t.edges.add_row(0, span, root, i)
        for _ in range(counts[i % len(counts)]):
            s_ = t.sites.add_row(position=span * (k + 0.5) / total, ancestral_state="0")
            t.mutations.add_row(site=s_, node=i, derived_state="1")
            k += 1
    t.sort()
    return t.tree_sequence()


@st.composite
def star_case(draw, tier):
    n = draw(st.integers(60, 160))
    counts = draw(st.lists(st.integers(0, 3), min_size=1, max_size=5))
    if sum(counts) == 0:
        counts[0] = 1
    ts = big_star(n, counts, draw(st.sampled_from([1.0, 1e3])))
    cap = draw(st.sampled_from([1.001, 1.01, 1.1]))
    nops = draw(st.integers(1, 4))
    ops = [["iterate", cap, draw(st.sampled_from([0.05, 0.1, 0.5])), draw(st.booleans())] for _ in range(nops)]
    return dict(mode="ops", ts=ts, mu=10.0 ** draw(st.integers(-3, 0)), phased=True, ops=ops, star=True)


@st.composite
def strategy_(draw, tier):
    if draw(st.integers(0, 7)) == 0:
        return draw(star_case(tier))
    contemp = draw(st.integers(0, 3)) > 0
    ts = draw(G.general_ts(tier=tier, contemporaneous=contemp, single_root=draw(st.booleans()), min_muts=1,
                           missing=False))
    internal = draw(st.integers(0, 4)) == 0
    if internal:
        # flag one internal node as a sample at its own time (a sample that is a parent)
        nons = [u for u in range(ts.num_nodes) if not ts.node(u).is_sample()]
        u = nons[draw(st.integers(0, len(nons) - 1))]
        tables = ts.dump_tables()
        fl = tables.nodes.flags
        fl[u] |= tskit.NODE_IS_SAMPLE
        tables.nodes.flags = fl
        ts = tables.tree_sequence()
    phased = draw(st.booleans())
    if not phased:
        # block_singletons only accepts diploid individuals; samples beyond the pattern stay unassigned
        skip = draw(st.lists(st.booleans(), min_size=1, max_size=4))
        tables = ts.dump_tables()
        tables.individuals.clear()
        ind = np.full(ts.num_nodes, tskit.NULL, dtype=np.int32)
        cont = [u for u in ts.samples() if ts.nodes_time[u] == 0]
        for q in range(len(cont) // 2):
            if skip[q % len(skip)] and q > 0:
                continue
            iid = tables.individuals.add_row()
            ind[cont[2 * q]] = ind[cont[2 * q + 1]] = iid
        tables.nodes.individual = ind
        ts = tables.tree_sequence()
    mu = 10.0 ** draw(st.integers(-4, 1))
    mode = draw(st.sampled_from(["date", "ops", "ops"]))
    max_shape = draw(st.sampled_from([1.5, 2.0, 2.0, 5.0, 50.0, 1000.0]))
    if mode == "date":
        return dict(mode=mode, ts=ts, mu=mu, phased=phased, max_shape=max_shape,
                    iters=draw(st.integers(1, 8)), regularise=draw(st.booleans()),
                    rescale=draw(st.sampled_from([0, 0, 2])))
    ops = draw(st.lists(st.tuples(st.sampled_from(OPS), st.sampled_from([1.5, 2.0, 5.0, 50.0, 1000.0]),
                                  st.sampled_from([0.05, 0.1, 0.5]), st.booleans()),
                        min_size=1, max_size=10))
    # the passes are only ever run on a state produced by a full iteration (the prior pass on the
    # all-zero initial state divides by zero): start every sequence with one
    ops = [("iterate", ops[0][1], ops[0][2], ops[0][3])] + ops
    return dict(mode=mode, ts=ts, mu=mu, phased=phased, ops=[list(o) for o in ops])


def strategy(tier):
    return strategy_(tier)


def resum(fit):
    """independent re-summation of all messages per node (unscaled)"""
    f = fit.factors
    n = fit.node_posterior.shape[0]
    tot = np.zeros((n, 2))
    mag = np.zeros((n, 2))
    edge = np.asarray(f.edge)
    block = np.asarray(f.block)
    node = np.asarray(f.node)
    p, c = np.asarray(fit.edge_parents), np.asarray(fit.edge_children)
    j, k = np.asarray(fit.block_nodes[0]), np.asarray(fit.block_nodes[1])
    for col in range(2):
        for idx, arr in ((p, edge[:, 0, col]), (c, edge[:, 1, col])):
            np.add.at(tot[:, col], idx, arr)
            np.add.at(mag[:, col], idx, np.abs(arr))
        if block.shape[0]:
            for idx, arr in ((j, block[:, 0, col]), (k, block[:, 1, col])):
                np.add.at(tot[:, col], idx, arr)
                np.add.at(mag[:, col], idx, np.abs(arr))
        for which in range(2):
            tot[:, col] += node[:, which, col]
            mag[:, col] += np.abs(node[:, which, col])
    return tot, mag


def invariant(fit, ts, where, scale_must_be_one):
    out = []
    post = np.asarray(fit.node_posterior)
    scale = np.asarray(fit.factors.scale)
    if not np.all(np.isfinite(post)) or not np.all(np.isfinite(scale)):
        return [Violation(f"{where}:nonfinite_state", "node_posterior or scale not finite")]
    tot, mag = resum(fit)
    lhs = post
    rhs = scale[:, None] * tot
    err = np.abs(lhs - rhs)
    bound = TOL * (scale[:, None] * mag + np.abs(post)) + 1e-300
    bad = np.argwhere(err > bound)
    if bad.size:
        u, col = bad[0]
        out.append(Violation(f"{where}:posterior_ne_message_sum",
                             f"node {u} param {col}: posterior {post[u, col]!r} vs scale*sum(messages) {rhs[u, col]!r} "
                             f"(scale {scale[u]!r})", node=int(u)))
    if scale_must_be_one and not np.all(scale == 1.0):
        out.append(Violation(f"{where}:scale_not_absorbed", "scale != 1 after iterate()"))
    fixed = np.asarray(fit.node_constraints[:, 0] == fit.node_constraints[:, 1])
    if np.any(post[fixed] != 0.0):
        out.append(Violation(f"{where}:sample_row_nonzero", "a sample node's posterior row is not exactly zero"))
    mn, vr = fit.node_moments()
    s = node_is_sample(ts)
    if not (np.array_equal(mn[s], ts.nodes_time[s]) and np.all(vr[s] == 0)):
        out.append(Violation(f"{where}:sample_time_changed", "node_moments() of a sample is not (its time, 0)"))
    return out


def run_op(fit, op, max_shape, min_step, regularise):
    if op == "iterate":
        fit.iterate(max_shape=max_shape, min_step=min_step, regularise=regularise)
    elif op == "blocks":
        fit.propagate_likelihood(fit.block_order, fit.block_nodes[0], fit.block_nodes[1], fit.block_likelihoods,
                                 fit.node_constraints, fit.node_posterior, fit.factors, fit.block_logconst,
                                 max_shape, min_step, True)
    elif op == "edges":
        fit.propagate_likelihood(fit.edge_order, fit.edge_parents, fit.edge_children, fit.edge_likelihoods,
                                 fit.node_constraints, fit.node_posterior, fit.factors, fit.edge_logconst,
                                 max_shape, min_step, False)
    elif op == "prior":
        fit.propagate_prior(fit.unconstrained_roots, fit.node_posterior, fit.factors, max_shape, 10, 1e-8)
    elif op == "rescale_factors":
        variational._rescale_factors(fit.factors)
    else:
        raise ValueError(op)


def check(case, ctx):
    ts = case["ts"]
    if case.get("star"):
        ctx.label("big_star_tiny_cap")
    ctx.label("mode=" + case["mode"], "phased" if case["phased"] else "unphased",
              "contemporaneous" if G.is_contemporaneous(ts) else "historical_or_internal")
    if case["mode"] == "date":
        return check_date(case, ctx)
    status, fit = call(EP, ts, mutation_rate=case["mu"], allow_unary=True, singletons_phased=case["phased"])
    if status != "ok":
        ctx.discard(("rejected:" if status == "rejected" else "internal:") + exc_key(fit))
        return []
    out = []
    nblocks = int(np.asarray(fit.factors.block).shape[0])
    if nblocks:
        ctx.label("has_blocks")
    iters = 0
    cap = False
    for i, (op, max_shape, min_step, regularise) in enumerate(case["ops"]):
        before = np.array(fit.node_posterior, copy=True)
        tot0, _ = resum(fit)
        scaled0 = np.asarray(fit.factors.scale)[:, None] * tot0
        status, e = call(run_op, fit, op, max_shape, min_step, regularise)
        if status != "ok":
            ctx.discard("internal:" + exc_key(e))
            return out
        if op == "iterate":
            iters += 1
        if op != "iterate" and op != "rescale_factors" and np.any(np.asarray(fit.factors.scale) < 1.0):
            cap = True
        if op == "rescale_factors":
            if not np.array_equal(before, np.asarray(fit.node_posterior)):
                out.append(Violation("ops:rescale_changes_posterior", "_rescale_factors changed node_posterior"))
            tot1, mag1 = resum(fit)
            if np.any(np.abs(tot1 - scaled0) > 1e-12 * (mag1 + np.abs(scaled0)) + 1e-300):
                out.append(Violation("ops:rescale_changes_sum", "_rescale_factors changed the scaled message sum"))
        out += invariant(fit, ts, "ops", scale_must_be_one=op in ("iterate", "rescale_factors"))
        if out:
            break
    if np.any(np.asarray(fit.node_posterior)[:, 0] + 1 >= 0.999 * max(o[1] for o in case["ops"])):
        cap = True
    if cap:
        ctx.label("cap_hit")
    if iters >= 2 and (cap or nblocks):
        ctx.mark_nontrivial()
    return out


def check_date(case, ctx):
    ts = case["ts"]
    found = []
    state = {"n": 0, "cap": False, "blocks": False}
    orig = EP.iterate

    def wrapped(self, *a, **k):
        r = orig(self, *a, **k)
        state["n"] += 1
        state["blocks"] = state["blocks"] or np.asarray(self.factors.block).shape[0] > 0
        sh = np.asarray(self.node_posterior)[:, 0] + 1
        if np.any(sh >= 0.999 * case["max_shape"]):
            state["cap"] = True
        if not found:
            found.extend(invariant(self, ts, "date", scale_must_be_one=True))
        return r

    EP.iterate = wrapped
    try:
        status, res = call(tsdate.date, ts, mutation_rate=case["mu"], method="variational_gamma",
                           max_iterations=case["iters"], max_shape=case["max_shape"],
                           regularise_roots=case["regularise"], rescaling_intervals=case["rescale"],
                           singletons_phased=case["phased"], allow_unary=True)
    finally:
        EP.iterate = orig
    if status != "ok":
        ctx.discard(("rejected:" if status == "rejected" else "internal:") + exc_key(res))
        if not found:
            return []
    if state["cap"]:
        ctx.label("cap_hit")
    if state["blocks"]:
        ctx.label("has_blocks")
    if state["n"] >= 2 and (state["cap"] or state["blocks"]):
        ctx.mark_nontrivial()
    return found


def describe(case):
    d = dict(mode=case["mode"], mu=case["mu"], phased=case["phased"], ts=G.ts_summary(case["ts"]))
    if case["mode"] == "ops":
        d["ops"] = [o[0] for o in case["ops"]]
    else:
        d.update(iters=case["iters"], max_shape=case["max_shape"])
    return d
