"""C04 — posteriors reported in metadata equal the fit object's posteriors.

Oracle (I/R) per method, on `date(..., return_fit=True, set_metadata in {None, True})`:
  * variational_gamma: node mn/vr == fit.node_posteriors()["mean"/"variance"] exactly (JSON repr round
    trip and struct 'd' are exact); mutations: per-site multiset {(node, derived_state, mn, vr)} read from
    the output == the multiset built from the *input* rows, fit.mutation_mapping() and
    fit.mutation_posteriors() (fit arrays are indexed by input mutation id, tskit's sort may permute the
    rows of a site), NaN == NaN (mutations above roots);
  * inside_outside: fit.node_posteriors() rows of non-sample nodes are >= 0 and sum to 1 (1e-12); mn/vr
    equal mean and variance recomputed here from those rows and the time points (column names);
    sample nodes report (their exact time, 0.0);
  * maximization: node and mutation metadata columns and schemas are byte-identical to the input's.
"""

import math

import numpy as np
import tskit
from hypothesis import strategies as st

from vt.common import node_is_sample
from vt.gen import cfg_a as A
from vt.gen import ts as G
from vt.runner import Violation

ID = "C04"
LEVEL = "exploration"
RULE = (
    "cases = generated tree sequences (finite-sites multi-mutation sites, mutations above roots, multi-root, "
    "internal/historical samples for variational_gamma) with a drawn pre-existing metadata family on the node "
    "and mutation tables (none / permissive JSON with other keys / struct with mn,vr) x all three methods x "
    "set_metadata in {None, True} x drawn options (rescaling, singletons_phased=False with diploid "
    "individuals); non-trivial = at least one mutation above a root (NaN posterior) or one multi-mutation "
    "site; distinct by SHA-1 of the case"
)
ASSUMPTIONS = [
    "set_metadata=None only with schemas that permit writing mn/vr (policy itself is C32); if no row carries "
    "mn the case is discarded as 'not written'",
    "inside_outside mean/variance tolerance: |d mn| <= 1e-12*tmax, |d vr| <= 1e-12*vr + 1e-24*tmax^2 "
    "(calibration on the unchanged tree, 5 seeds x 440 cases: worst observed 1.2e-16*tmax and 5.6e-16 relative)",
    "fit.mutation_mapping() gives the node each input mutation ends on (C22 owns its correctness)",
]

PERMIT_NONE = ["none_empty", "none_empty", "json_permissive", "json_permissive_empty", "struct_mnvr"]
ALL_FAMILIES = G.METADATA_FAMILIES


def budget(tier):
    if tier == "quick":
        return dict(examples=110, shards=4, time_s=1800)  # cap only: cold-JIT audits on a loaded machine
    return dict(examples=800, shards=16)


@st.composite
def strategy_(draw, tier):
    sm = draw(st.sampled_from([None, True]))
    case = draw(A.dating_case(tier, set_metadata=(sm,)))
    fams = PERMIT_NONE if sm is None else ALL_FAMILIES
    nf, mf = draw(st.sampled_from(fams)), draw(st.sampled_from(fams))
    tables = case["ts"].dump_tables()
    G.set_table_metadata(tables.nodes, nf, 0)
    G.set_table_metadata(tables.mutations, mf, 1)
    case["ts"] = tables.tree_sequence()
    case["families"] = [nf, mf]
    return case


def strategy(tier):
    return strategy_(tier)


def _canon(x):
    x = float(x)
    return "nan" if x != x else x.hex()


def _mnvr(md):
    if isinstance(md, dict) and "mn" in md and "vr" in md:
        return md["mn"], md["vr"]
    return None


def check_nodes_exact(dts, mean, var, what):
    for u in dts.nodes():
        mv = _mnvr(u.metadata)
        if mv is None:
            return [Violation(f"{what}:node_metadata_missing", f"node {u.id} has no mn/vr while other rows have")]
        if _canon(mv[0]) != _canon(mean[u.id]) or _canon(mv[1]) != _canon(var[u.id]):
            return [Violation(f"{what}:node_metadata_differs",
                              f"node {u.id}: metadata mn/vr = {mv[0]!r}/{mv[1]!r} but fit posterior mean/variance = "
                              f"{float(mean[u.id])!r}/{float(var[u.id])!r}")]
    return []


def check_variational(case, dts, fit, ctx):
    ts = case["ts"]
    out = []
    post = fit.node_posteriors()
    any_node = any(_mnvr(u.metadata) is not None for u in dts.nodes())
    any_mut = any(_mnvr(m.metadata) is not None for m in dts.mutations())
    if not any_node and not any_mut:
        ctx.discard("metadata_not_written(C32)")
        return []
    if any_node:
        out += check_nodes_exact(dts, post["mean"], post["variance"], "variational")
    else:
        ctx.label("node_metadata_not_written")
    if any_mut:
        mpost = fit.mutation_posteriors()
        mnode = np.asarray(fit.mutation_mapping())
        exp = {}
        for m in ts.mutations():
            key = (m.site, int(mnode[m.id]), m.derived_state, _canon(mpost["mean"][m.id]), _canon(mpost["variance"][m.id]))
            exp[key] = exp.get(key, 0) + 1
        got = {}
        for m in dts.mutations():
            mv = _mnvr(m.metadata)
            if mv is None:
                out.append(Violation("variational:mutation_metadata_missing", f"mutation {m.id} has no mn/vr while other rows have"))
                return out
            key = (m.site, m.node, m.derived_state, _canon(mv[0]), _canon(mv[1]))
            got[key] = got.get(key, 0) + 1
        if got != exp:
            only_got = sorted(k for k in got if got[k] != exp.get(k, 0))[:2]
            only_exp = sorted(k for k in exp if exp[k] != got.get(k, 0))[:2]
            nan_only = all(k[3] == "nan" or k[4] == "nan" for k in only_got + only_exp)
            out.append(Violation("variational:mutation_metadata_differs" + (":nan_rows" if nan_only else ""),
                                 f"per-site multisets (site,node,state,mn,vr) differ; in metadata only: "
                                 f"{[(k[0], k[1], k[2], _fh(k[3]), _fh(k[4])) for k in only_got]}; "
                                 f"from fit only: {[(k[0], k[1], k[2], _fh(k[3]), _fh(k[4])) for k in only_exp]}"))
        if np.isnan(mpost["mean"]).any():
            ctx.label("nan_mutation_posterior")
    else:
        ctx.label("mutation_metadata_not_written")
    return out


def _fh(s):
    return s if s == "nan" else float.fromhex(s)


def check_inside_outside(case, dts, fit, ctx):
    ts = case["ts"]
    out = []
    arr = fit.node_posteriors()
    tp = np.array([float(n) for n in arr.dtype.names])
    grid = arr.view(np.float64).reshape(-1, len(tp))
    if grid.shape[0] != ts.num_nodes:
        return [Violation("inside_outside:posterior_shape", f"node_posteriors() has {grid.shape[0]} rows for {ts.num_nodes} nodes")]
    is_s = node_is_sample(ts)
    tmax = float(tp.max())
    any_node = any(_mnvr(u.metadata) is not None for u in dts.nodes())
    if not any_node:
        ctx.discard("metadata_not_written(C32)")
        return []
    worst_mn = worst_vr = 0.0
    for u in dts.nodes():
        mv = _mnvr(u.metadata)
        if mv is None:
            return [Violation("inside_outside:node_metadata_missing", f"node {u.id} has no mn/vr while other rows have")]
        mn, vr = float(mv[0]), float(mv[1])
        if is_s[u.id]:
            if mn != ts.nodes_time[u.id] or vr != 0.0:
                out.append(Violation("inside_outside:sample_metadata", f"sample {u.id} (time {ts.nodes_time[u.id]!r}) reports mn={mn!r} vr={vr!r}"))
                break
            continue
        row = grid[u.id]
        if not np.all(np.isfinite(row)) or np.any(row < 0):
            out.append(Violation("inside_outside:row_not_nonnegative", f"posterior row of node {u.id} has negative or non-finite entries"))
            break
        tot = math.fsum(row)
        if abs(tot - 1.0) > 1e-12:
            out.append(Violation("inside_outside:row_not_normalised", f"posterior row of node {u.id} sums to {tot!r}"))
            break
        m = math.fsum(row * tp) / tot
        v = math.fsum((tp - m) ** 2 * row) / tot
        worst_mn = max(worst_mn, abs(mn - m) / tmax)
        if v > 0:
            worst_vr = max(worst_vr, abs(vr - v) / v)
        if not abs(mn - m) <= 1e-12 * tmax:
            out.append(Violation("inside_outside:mean_differs", f"node {u.id}: metadata mn={mn!r}, mean of posterior row over timepoints={m!r}"))
            break
        if not abs(vr - v) <= 1e-12 * v + 1e-24 * tmax * tmax:
            out.append(Violation("inside_outside:variance_differs", f"node {u.id}: metadata vr={vr!r}, variance of posterior row={v!r}"))
            break
    ctx_extra = getattr(ctx, "extra", None)
    if ctx_extra is not None:
        ctx_extra["calib_worst_mn_rel_tmax"] = [max(worst_mn, max(ctx_extra.get("calib_worst_mn_rel_tmax", [0.0])))]
        ctx_extra["calib_worst_vr_rel"] = [max(worst_vr, max(ctx_extra.get("calib_worst_vr_rel", [0.0])))]
    return out


def check_maximization(case, dts, fit, ctx):
    ts = case["ts"]
    out = []
    for name in ("nodes", "mutations"):
        a, b = getattr(ts.tables, name), getattr(dts.tables, name)
        if repr(a.metadata_schema) != repr(b.metadata_schema):
            out.append(Violation(f"maximization:{name}_schema_changed", f"{name} metadata schema changed"))
        if name == "nodes":
            same = np.array_equal(a.metadata, b.metadata) and np.array_equal(a.metadata_offset, b.metadata_offset)
        else:  # rows of a site may be permuted: compare per-site multisets of raw bytes
            def ms(tab):
                d = {}
                for i in range(tab.num_rows):
                    k = (int(tab.site[i]), bytes(tab.metadata[tab.metadata_offset[i]:tab.metadata_offset[i + 1]]))
                    d[k] = d.get(k, 0) + 1
                return d
            same = ms(a) == ms(b)
        if not same:
            out.append(Violation(f"maximization:{name}_metadata_changed", f"{name} metadata bytes changed although maximization has no posteriors"))
    return out


def check(case, ctx):
    ts = case["ts"]
    status, res = A.run_dating(case)
    if status != "ok":
        r = A.classify_failure(status, res)
        if status == "internal" and isinstance(res, tskit.LibraryError) and A.raised_in(res, "get_modified_ts"):
            r = "internal:invalid_output(C01/F1)"
        ctx.discard(r)
        return []
    dts, fit = res[0], res[1]
    ctx.label(*A.option_labels(case), *A.input_labels(ts), "set_metadata=" + str(case["kw"].get("set_metadata")),
              "node_family=" + case["families"][0], "mut_family=" + case["families"][1])
    rootmut = A.has_root_mutation(ts)
    multi = ts.num_sites > 0 and bool(np.any(np.bincount(ts.mutations_site, minlength=ts.num_sites) > 1))
    if rootmut:
        ctx.label("mutation_above_root")
    if rootmut or multi:
        ctx.mark_nontrivial()
    if case["method"] == "variational_gamma":
        return check_variational(case, dts, fit, ctx)
    if case["method"] == "inside_outside":
        return check_inside_outside(case, dts, fit, ctx)
    return check_maximization(case, dts, fit, ctx)


def describe(case):
    d = A.describe(case)
    d["families"] = case["families"]
    return d
