"""C30 — unary-node detection is exact.

Oracle (R): per-interval child counts taken straight from the edge table (numpy bincount of the
parents of the edges covering each breakpoint interval).  Judged: util.contains_unary_nodes (with
and without skip_samples), prior.has_locally_unary_nodes, and the observable behaviour of
date(..., allow_unary=False): variational_gamma raises its "contains unary nodes" ValueError iff a
non-sample node is unary somewhere; inside_outside / maximization raise their "has unary nodes"
ValueError iff any node is unary somewhere.  Rejections with another message are classified and
never counted as acceptance failures.
"""

import logging

import numpy as np
import tskit
from hypothesis import strategies as st

import tsdate
from tsdate import prior, util

from vt.common import call, exc_key, node_is_sample
from vt.gen import ts as G
from vt.gen import util_h as H
from vt.runner import Violation

ID = "C30"
LEVEL = "exploration"
RULE = (
    "cases = unary-free generated tree sequences (contemporaneous, one root per tree), the same with "
    "one node spliced into one edge over a drawn sub-interval (whole edge / first tree / last tree / "
    "interior fragment; optionally flagged as a sample; optionally next to a deleted region), one leaf "
    "edge removed up to the right end (unary by edge removal only), "
    "msprime full ARGs and coalescing_segments_only=False simulations simplified with "
    "keep_unary=True, and internal sample nodes; x method; non-trivial = exactly one unary "
    "occurrence (one node, one interval) in the whole tree sequence; distinct by SHA-1 of (tables, method)"
)
ASSUMPTIONS = [
    "numpy/tskit table accessors trusted; the oracle does not use tskit trees",
    "discrete methods judge the tree sequence after tsdate's reduce_to_contemporaneous step; inputs that "
    "this step changes (node or edge tables differ) are rejected for another documented reason first "
    "and are discarded",
    "rejections whose message does not mention unary nodes (multiple roots, dangling nodes, "
    "non-contemporaneous samples) are unrelated to this property and discarded",
]
logging.getLogger("tsdate").addHandler(logging.NullHandler())

METHODS = ["variational_gamma", "inside_outside", "maximization", "detectors"]


def budget(tier):
    if tier == "quick":
        return dict(examples=200, shards=4, time_s=2400)  # time_s: only a guard for overloaded machines
    return dict(examples=2000, shards=16)


@st.composite
def strategy_(draw, tier):
    kind = draw(st.sampled_from(["clean", "splice", "splice", "splice", "fullarg", "internal_sample",
                                 "splice_gap", "drop_leaf"]))
    tags = ["kind=" + kind]
    if kind == "fullarg":
        ts = draw(H.fullarg_ts(max_n=8 if tier == "quick" else 14))
        if draw(st.integers(0, 2)) == 0 and ts.num_trees > 1:
            # keep unary nodes in one tree only: simplify everything else
            bps = ts.breakpoints(as_array=True)
            i = draw(st.integers(0, ts.num_trees - 1))
            tags.append("unary_tree=" + ("first" if i == 0 else "last" if i == ts.num_trees - 1 else "inner"))
            ts = _unary_only_in(ts, float(bps[i]), float(bps[i + 1]))
    else:
        ts = draw(G.general_ts(tier=tier, contemporaneous=True, single_root=True, min_muts=2,
                               max_n=8 if tier == "quick" else None))
        if kind == "splice_gap" and ts.sequence_length > 0:
            L = ts.sequence_length
            a = L * draw(st.integers(1, 14)) / 16.0
            b = a + L / 16.0
            ts2 = ts.delete_intervals([[a, b]], simplify=False, record_provenance=False)
            if ts2.num_edges and ts2.num_mutations >= 1:
                ts = ts2
        if kind in ("splice", "splice_gap"):
            where = draw(st.sampled_from(["whole", "left", "right", "inner", "first_tree", "last_tree"]))
            e = draw(st.integers(0, 10**6))
            if where in ("first_tree", "last_tree") and ts.num_edges:
                x = 0.0 if where == "first_tree" else ts.sequence_length
                if where == "first_tree":
                    cands = np.flatnonzero(ts.edges_left == ts.edges_left.min())
                else:
                    cands = np.flatnonzero(ts.edges_right == ts.edges_right.max())
                e = int(cands[e % len(cands)])
                bps = ts.breakpoints(as_array=True)
                ed = ts.edge(e)
                if where == "first_tree":
                    nxt = bps[np.searchsorted(bps, ed.left, side="right")]
                    fr = (0.0, min(1.0, (nxt - ed.left) / (ed.right - ed.left)))
                else:
                    prv = bps[np.searchsorted(bps, ed.right, side="left") - 1]
                    fr = (max(0.0, (prv - ed.left) / (ed.right - ed.left)), 1.0)
            else:
                fr = {"whole": (0.0, 1.0), "left": (0.0, draw(st.sampled_from([0.25, 0.5]))),
                      "right": (draw(st.sampled_from([0.5, 0.75])), 1.0),
                      "inner": (0.25, draw(st.sampled_from([0.375, 0.75])))}.get(where, (0.0, 1.0))
            as_sample = draw(st.integers(0, 3)) == 0
            r = H.splice_unary(ts, e, fr[0], fr[1], draw(st.sampled_from([0.25, 0.5, 0.75])), as_sample=as_sample)
            if r is not None:
                ts = r[0]
                tags += ["where=" + where, "spliced_sample" if as_sample else "spliced_nonsample"]
            if draw(st.integers(0, 4)) == 0:
                r = H.splice_unary(ts, draw(st.integers(0, 10**6)), 0.0, 0.5, 0.5, as_sample=draw(st.booleans()))
                if r is not None:
                    ts = r[0]
                    tags.append("second_splice")
        elif kind == "drop_leaf":
            # a sample becomes isolated over [lo, hi): its parent loses a child by edge REMOVAL only
            # (no edge is inserted at lo); with hi = L nothing is inserted afterwards either
            if draw(st.booleans()):
                # cut one sample's edge strictly inside the last tree: the only event at that
                # position is an edge removal, and no edge is inserted anywhere to its right
                ends = np.flatnonzero((ts.edges_right == ts.sequence_length) & node_is_sample(ts)[ts.edges_child])
                if len(ends):
                    e = ts.edge(int(ends[draw(st.integers(0, len(ends) - 1))]))
                    last_left = float(ts.breakpoints(as_array=True)[-2])
                    x = last_left + (ts.sequence_length - last_left) * draw(st.sampled_from([0.25, 0.5, 0.75]))
                    tables = ts.dump_tables()
                    right = tables.edges.right
                    right[e.id] = x
                    tables.edges.right = right
                    keep = ~((ts.mutations_node == e.child) & (ts.sites_position[ts.mutations_site] >= x))
                    tables.mutations.keep_rows(keep)
                    ts2 = H.refinalize(tables)
                    if ts2.num_mutations >= 1:
                        ts = ts2
                        tags.append("drop_inside_last_tree")
            else:
                hi = draw(st.sampled_from([1.0, 1.0, 0.75]))
                lo = draw(st.sampled_from([0.0, 0.25, 0.5, 0.9]))
                ts2 = G.remove_leaf_edge(ts, draw(st.integers(0, 100)), lo, hi)
                if ts2.num_mutations >= 1:
                    ts = ts2
                    tags.append("drop_to_end" if hi == 1.0 else "drop_inner")
        elif kind == "internal_sample":
            nons = np.flatnonzero(~node_is_sample(ts))
            if len(nons):
                ts = H.flag_as_sample(ts, int(nons[draw(st.integers(0, len(nons) - 1))]))
    method = draw(st.sampled_from(METHODS))
    return dict(ts=ts, method=method, tags=tags, mu=10.0 ** draw(st.integers(-3, 0)))


def _unary_only_in(ts, a, b):
    """simplify (drop unary) outside [a,b), keep the unary nodes inside: node ids preserved"""
    tables = ts.dump_tables()
    inside = ts.keep_intervals([[a, b]], simplify=False, record_provenance=False)
    outside = ts.delete_intervals([[a, b]], simplify=False, record_provenance=False)
    outside_s = outside.simplify(filter_nodes=False, keep_unary=False, filter_sites=False,
                                 filter_populations=False, filter_individuals=False)
    tables.edges.clear()
    for t in (inside, outside_s):
        for e in t.edges():
            tables.edges.add_row(e.left, e.right, e.parent, e.child)
    tables.sort()
    tables.edges.squash()
    tables.sort()
    # mutations above nodes that are no longer in the tree there: drop all and re-add those whose
    # node still has a parent or children at the site
    tables.build_index()
    tables.compute_mutation_parents()
    t0 = tables.tree_sequence()
    keep = np.zeros(t0.num_mutations, dtype=bool)
    for tree in t0.trees():
        for s in tree.sites():
            for m in s.mutations:
                keep[m.id] = tree.parent(m.node) != tskit.NULL or tree.num_children(m.node) > 0
    tables.mutations.keep_rows(keep)
    tables.build_index()
    tables.compute_mutation_parents()
    ts2 = tables.tree_sequence()
    # nodes without edges would make the discrete methods reject ("not simplified"): drop them
    return ts2.simplify(keep_unary=True, filter_sites=False)


def strategy(tier):
    return strategy_(tier)


def reduce_changes_tables(ts):
    """tsdate's discrete methods first simplify to the time-0 samples with keep_unary=True and reject
    if a node disappears; they then look at that tree sequence. Domain: this step is the identity."""
    samples = ts.samples()
    cont = samples[ts.nodes_time[samples] == 0]
    if len(cont) == 0:
        return True
    s, nmap = ts.simplify(cont, map_nodes=True, keep_unary=True, filter_populations=False, filter_sites=False,
                          filter_individuals=False, record_provenance=False)
    if s.num_nodes != ts.num_nodes or s.num_edges != ts.num_edges:
        return True
    a = H.squashed_edge_set(ts.edges_left, ts.edges_right, nmap[ts.edges_parent], nmap[ts.edges_child])
    b = H.squashed_edge_set(s.edges_left, s.edges_right, s.edges_parent, s.edges_child)
    return a != b


def check(case, ctx):
    ts, method = case["ts"], case["method"]
    ctx.label("method=" + method, *case["tags"])
    occ = H.unary_occurrences(ts)
    is_s = node_is_sample(ts)
    any_unary = len(occ) > 0
    ns_unary = any(not is_s[u] for u, _, _ in occ)
    s_unary = any(is_s[u] for u, _, _ in occ)
    ctx.label("oracle:" + ("nonsample_unary" if ns_unary else "sample_unary_only" if s_unary else "no_unary"))
    if len(occ) == 1:
        ctx.mark_nontrivial()
        ctx.label("exactly_one_occurrence")
        u, l, r = occ[0]
        bps = np.unique(np.concatenate([ts.edges_left, ts.edges_right]))
        if l == bps[0]:
            ctx.label("single_occurrence_starts_at_first_tree")
        if r == bps[-1]:
            ctx.label("single_occurrence_ends_at_last_tree")
    V = []
    # -- detectors (cheap: always) ---------------------------------------------------
    for name, fn, exp in (
        ("contains_unary_nodes", lambda: util.contains_unary_nodes(ts), ns_unary),
        ("contains_unary_nodes(skip_samples=False)", lambda: util.contains_unary_nodes(ts, skip_samples=False), any_unary),
        ("has_locally_unary_nodes", lambda: prior.has_locally_unary_nodes(ts), any_unary),
    ):
        st_, got = call(fn)
        if st_ != "ok":
            V.append(Violation(f"detector_raised:{name}:" + exc_key(got), f"{name} raised {got!r}"))
        elif bool(got) != exp:
            V.append(Violation(f"detector_wrong:{name}:" + ("missed" if exp else "false_positive"),
                               f"{name} returned {got} but the edge table has unary occurrences {occ[:3]} "
                               f"(samples among them: {s_unary}, non-samples: {ns_unary})"))
    if method == "detectors":
        return V
    # -- observable behaviour --------------------------------------------------------
    kw = dict(mutation_rate=case["mu"], method=method, allow_unary=False, record_provenance=False)
    if method == "variational_gamma":
        kw.update(rescaling_intervals=0, max_iterations=1)
        expected = ns_unary
        needle = "contains unary nodes"
    else:
        kw.update(population_size=10.0)
        expected = any_unary
        needle = "has unary nodes"
        if reduce_changes_tables(ts):
            ctx.discard("reduce_to_contemporaneous changes the tables (other documented rejection)")
            return V
    status, res = call(tsdate.date, ts, **kw)
    if status == "internal":
        ctx.discard("internal:" + exc_key(res))
        return V
    if status == "rejected":
        msg = str(res)
        if needle in msg:
            ctx.label("rejected_unary")
            if not expected:
                V.append(Violation(f"false_unary_rejection:{method}", f"{method} rejected with {msg!r} but no "
                                   f"{'non-sample ' if method == 'variational_gamma' else ''}node is unary (occurrences {occ[:3]})"))
        elif "unary" in msg.lower():
            # the other unary message of the discrete code path (first_pass)
            ctx.label("rejected_unary_other_message")
            if not expected:
                V.append(Violation(f"false_unary_rejection:{method}", f"{method} rejected with {msg!r} but nothing is unary"))
        else:
            ctx.discard("other rejection: " + "".join(c if not c.isdigit() else "#" for c in msg)[:50])
            if expected:
                ctx.label("unary_but_other_rejection")
        return V
    ctx.label("accepted")
    if expected:
        V.append(Violation(f"unary_accepted:{method}", f"{method}(allow_unary=False) accepted a tree sequence with unary "
                           f"occurrences {occ[:3]} (non-sample: {ns_unary}, sample: {s_unary})"))
    return V


def describe(case):
    return dict(ts=G.ts_summary(case["ts"]), method=case["method"], tags=case["tags"])
