"""C25 — time rescaling is an order-preserving recalibration.

(a) fit cases: ExpectationPropagation iterated without rescaling, snapshot of node and mutation
    posterior means, then fit.rescale(...). Invariants (I): sorted by pre-rescale mean, node and
    mutation means together are non-decreasing afterwards (1e-12 relative), ties stay ties; fixed
    (sample) nodes keep their times exactly with zero variance; free posteriors are proper
    (shape > 0, rate > 0, finite positive mean) with shape <= max_shape (1e-9 relative).
    Reference (R) for "has the mapped mean": the break arrays are recovered by driving the same
    kernels the way rescale() does, but every evaluation of the piecewise-linear map (per
    iteration, in the break recovery and in the final map) is done by this check's own
    interpolation (vt/oracle/rescale_g.pl_map); post-rescale means must equal map(pre-rescale
    mean) at 1e-9 relative (both sides evaluate the same line; at a break continuity makes
    either piece give the same value up to rounding; worst seen on the unchanged tree, seeds 1..5:
    < 8e-16, evidence field sum_over_shards_of_max_mapped_mean_rel_err).
(b) kernel cases: mutational_area against a brute-force overlap of every positive-length edge
    with every interval between node times (1e-9 of the summed magnitudes: the code accumulates
    +x/-x with a running sum); mutational_timescale output is a valid monotone map (starts at
    (0,0), origins strictly increasing node times ending at the oldest, images non-decreasing,
    at most max_intervals pieces); piecewise_scale_point_estimate / piecewise_scale_posterior
    against the own interpolation on drawn break arrays, points exactly on breaks included.

Internal errors of the rescaling step on inputs with too few mutations ("Use fewer rescaling
intervals", "Zero edge span in interval", KL failures) belong to C35 and are discards here.
"""

import numpy as np
import tskit
from hypothesis import strategies as st

from tsdate import rescaling, variational

from vt.common import call, exc_key, node_is_sample
from vt.gen import ts as G
from vt.oracle import rescale_g as O
from vt.runner import Violation

ID = "C25"
LEVEL = "exploration"
RULE = (
    "cases = (a) generated tree sequence x mutation rate x EP iterations x max_shape x rescale_intervals x "
    "rescale_iterations x rescale_segsites, fitted then rescaled; (b) DAG of a generated tree sequence with a drawn "
    "node-time vector (true / random / ties / inverted edges; minimum 0) and drawn per-edge (mutations, span), or drawn "
    "break arrays with points on, between and beyond breaks. non-trivial = >= 3 distinct free times and ((a) the "
    "map has >= 2 pieces or moved a mean by > 1e-6 relative, (b-area) >= 1 edge of inverted or zero length, "
    "(b-scale) >= 2 pieces and a point exactly on an interior break); distinct by SHA-1 of the case"
)
ASSUMPTIONS = [
    "singletons phased (reallocate_unphased is a no-op); node times >= 0 with minimum 0 in kernel cases (the kernels "
    "start their first interval at 0)",
    "mutational_timescale is used to obtain the break arrays in fit cases; its inputs (mutational_area) are judged by the "
    "brute-force kernel cases; every evaluation of the map is the check's own interpolation",
    "internal errors inside the rescaling step (few-mutation assertions, KL minimisation failures) are C35's: discards",
    "tolerances: order 1e-12 relative, mapped mean 1e-9 relative, area 1e-9 of summed magnitudes, shape cap 1e-9 relative",
]

ORDER_RTOL = 1e-12
MEAN_RTOL = 1e-9
AREA_RTOL = 1e-9
SHAPE_RTOL = 1e-9


def budget(tier):
    if tier == "quick":
        return dict(examples=250, shards=4)
    return dict(examples=2500, shards=16)


# ------------------------------------------------------------------------------ strategy

TIME_STYLES = ["true", "random", "ties", "inverted", "near_ties"]


@st.composite
def strategy_(draw, tier):
    kind = draw(st.sampled_from(["fit", "fit", "area", "scale"]))
    if kind == "fit":
        contemporaneous = draw(st.sampled_from([True, True, True, False]))
        ts = draw(G.general_ts(tier=tier, contemporaneous=contemporaneous, single_root=True,
                               min_muts=draw(st.sampled_from([10, 30, 60])), allow_polytomy=True,
                               max_n=8 if tier == "quick" else 14))
        return dict(kind="fit", ts=ts, mu=10.0 ** draw(st.integers(-3, 0)),
                    ep_iterations=draw(st.sampled_from([2, 1, 5])),
                    max_shape=float(draw(st.sampled_from([1000, 100, 10, 3]))),
                    intervals=draw(st.sampled_from([2, 1, 3, 5, 10, 1000])),
                    iterations=draw(st.sampled_from([2, 1, 5, 10])),
                    segsites=draw(st.booleans()))
    if kind == "area":
        ts = draw(G.general_ts(tier=tier, contemporaneous=draw(st.booleans()), single_root=draw(st.booleans()),
                               min_muts=0, allow_polytomy=True))
        n, ne = ts.num_nodes, ts.num_edges
        style = draw(st.sampled_from(TIME_STYLES))
        vals = draw(st.lists(st.integers(0, 1000), min_size=n, max_size=n))
        muts = draw(st.lists(st.sampled_from([0, 0, 1, 2, 5]), min_size=ne, max_size=ne))
        span = draw(st.lists(st.integers(1, 64), min_size=ne, max_size=ne))
        return dict(kind="area", ts=ts, style=style, vals=vals, muts=muts, span=span,
                    intervals=draw(st.sampled_from([1, 2, 3, 10, 1000])))
    # scale kernels
    k = draw(st.integers(1, 6))
    d_o = draw(st.lists(st.integers(1, 40), min_size=k, max_size=k))
    d_r = draw(st.lists(st.integers(1, 40), min_size=k, max_size=k))
    unit_o = draw(st.sampled_from([1.0, 0.125, 1e-3, 37.0]))
    unit_r = draw(st.sampled_from([1.0, 0.125, 1e-3, 37.0]))
    npts = draw(st.integers(1, 8))
    # a point is (interval index or k for beyond, fraction in eighths; 0 = exactly on the break)
    pts = draw(st.lists(st.tuples(st.integers(0, k), st.integers(0, 7)), min_size=npts, max_size=npts))
    fixed = draw(st.lists(st.booleans(), min_size=npts, max_size=npts))
    shapes = draw(st.lists(st.sampled_from([0.5, 1.0, 2.0, 10.0, 100.0, 999.0]), min_size=npts, max_size=npts))
    return dict(kind="scale", d_o=d_o, d_r=d_r, unit_o=unit_o, unit_r=unit_r, pts=pts, fixed=fixed, shapes=shapes,
                max_shape=float(draw(st.sampled_from([1000, 50, 5]))))


def strategy(tier):
    return strategy_(tier)


# --------------------------------------------------------------------------------- fits


def _ordered(pre, post):
    """-> violation text or None"""
    order = np.argsort(pre, kind="stable")
    a, b = pre[order], post[order]
    for i in range(len(a) - 1):
        tol = ORDER_RTOL * max(abs(b[i]), abs(b[i + 1]))
        if a[i] == a[i + 1]:
            if abs(b[i] - b[i + 1]) > tol:
                return "tie_broken", f"items with equal pre-rescale mean {a[i]!r} get {b[i]!r} and {b[i + 1]!r}"
        elif b[i + 1] < b[i] - tol:
            return "order_reversed", (f"pre-rescale means {a[i]!r} < {a[i + 1]!r} but post-rescale "
                                      f"{b[i]!r} > {b[i + 1]!r}")
    return None


def _internal_discard(ctx, where, e):
    ctx.discard(f"internal:{where}:{type(e).__name__}:{str(e)[:40]}")


def check_fit(case, ctx):
    ts = case["ts"]
    ctx.label(f"fit:intervals={case['intervals']}", f"fit:iterations={case['iterations']}",
              f"fit:max_shape={case['max_shape']:g}", f"fit:segsites={case['segsites']}")
    if not G.is_contemporaneous(ts):
        ctx.label("fit:historical_samples")
    status, fit = call(variational.ExpectationPropagation, ts, mutation_rate=case["mu"])
    if status != "ok":
        ctx.discard("fit:constructor_" + status)
        return []
    status, res = call(fit.infer, ep_iterations=case["ep_iterations"], max_shape=case["max_shape"],
                       rescale_intervals=0, rescale_iterations=0, regularise=True, rescale_segsites=False)
    if status != "ok":
        ctx.discard("fit:infer_" + status)
        return []
    pre_n, _ = fit.node_moments()
    pre_m, _ = fit.mutation_moments()
    pre_n, pre_m = pre_n.copy(), pre_m.copy()
    fixed = fit.node_constraints[:, 0] == fit.node_constraints[:, 1]
    free = ~fixed
    if not (np.all(np.isfinite(pre_n)) and np.all(pre_n[free] > 0)):
        ctx.discard("fit:improper_posterior_before_rescale")
        return []
    likes = np.array(fit.edge_likelihoods if case["segsites"] else fit.sizebiased_likelihoods, dtype=float, copy=True)
    ep_, ec_ = fit.edge_parents, fit.edge_children
    out = []

    # break arrays, obtained as rescale() obtains them; every map evaluation is our own
    t = pre_n.copy()
    ob = rb = None
    try:
        for _ in range(case["iterations"]):
            ob, rb = rescaling.mutational_timescale(t, likes, fixed, ep_, ec_, case["intervals"])
            ob, rb = np.array(ob), np.array(rb)
            if not (np.all(np.diff(ob) > 0) and np.all(np.diff(rb) > 0)):
                raise AssertionError("Use fewer rescaling intervals")
            mine = O.pl_map(t, ob, rb)
            mine[fixed] = t[fixed]
            theirs = np.array(rescaling.piecewise_scale_point_estimate(t, fixed, ob, rb))
            bad = np.abs(mine - theirs) > MEAN_RTOL * np.maximum(np.abs(mine), np.abs(theirs))
            if np.any(bad):
                u = int(np.flatnonzero(bad)[0])
                out.append(Violation("fit:point_estimate_not_mapped", f"iteration map: node {u} time {t[u]!r} -> {theirs[u]!r}, "
                                     f"interpolation through the breaks gives {mine[u]!r}"))
                return out
            t = theirs
    except Exception as e:  # few-mutation assertions etc.: rescale() will hit the same
        ob = None
        replicate_error = e
    status, res = call(fit.rescale, rescale_intervals=case["intervals"], rescale_iterations=case["iterations"],
                       rescale_segsites=case["segsites"], max_shape=case["max_shape"])
    if status != "ok":
        _internal_discard(ctx, "rescale", res)
        return out
    if ob is None:
        _internal_discard(ctx, "replication_only", replicate_error)
        return out
    ctx.label("fit:rescaled")
    post_n, post_v = fit.node_moments()
    post_m, _ = fit.mutation_moments()

    # fixed nodes untouched
    if not (np.array_equal(post_n[fixed], ts.nodes_time[fixed]) and np.all(post_v[fixed] == 0)):
        out.append(Violation("fit:fixed_node_moved", "a sample node's time or variance changed in rescale()"))
    # proper posteriors, shape cap
    alpha, beta = fit.node_posterior[free].T
    mfree = np.isfinite(pre_m)
    am, bm = fit.mutation_posterior[mfree].T
    for what, a_, b_ in (("node", alpha, beta), ("mutation", am, bm)):
        if a_.size == 0:
            continue
        if not (np.all(np.isfinite(a_)) and np.all(np.isfinite(b_)) and np.all(a_ > -1) and np.all(b_ > 0)):
            out.append(Violation(f"fit:improper_posterior:{what}", f"{what} posterior not a proper gamma after rescale "
                                 f"(alpha range {np.nanmin(a_)!r}..{np.nanmax(a_)!r}, beta min {np.nanmin(b_)!r})"))
        elif np.any(a_ + 1 > case["max_shape"] * (1 + SHAPE_RTOL)):
            out.append(Violation(f"fit:shape_above_max:{what}", f"{what} shape {np.max(a_ + 1)!r} > max_shape {case['max_shape']!r}"))
    if out:
        return out
    if np.any(a_ + 1 >= case["max_shape"] * (1 - 1e-6)) or np.any(alpha + 1 >= case["max_shape"] * (1 - 1e-6)):
        ctx.label("fit:shape_cap_active")
    # joint order
    pre = np.concatenate([pre_n[free], pre_m[mfree]])
    post = np.concatenate([post_n[free], post_m[mfree]])
    if not (np.all(np.isfinite(post)) and np.all(post > 0)):
        out.append(Violation("fit:nonpositive_mean", "a rescaled posterior mean is not finite and positive"))
        return out
    r = _ordered(pre, post)
    if r is not None:
        out.append(Violation("fit:" + r[0], r[1]))
    # mapped mean
    u, idx = np.unique(t[free], return_index=True)
    xs = np.append(0.0, u)
    ys = np.append(0.0, pre_n[free][idx])
    if not (np.all(np.diff(xs) > 0) and np.all(np.diff(ys) > 0)):
        ctx.discard("fit:degenerate_break_recovery")
        return out
    OB = O.pl_map(rb, xs, ys)
    if not np.all(np.diff(OB) > 0):
        ctx.discard("fit:degenerate_break_recovery")
        return out
    if OB[0] != 0 or rb[0] != 0:
        out.append(Violation("fit:zero_not_fixed", f"map does not start at (0,0): ({OB[0]!r},{rb[0]!r})"))
    want = O.pl_map(pre, OB, rb)
    bad = np.abs(want - post) > MEAN_RTOL * np.maximum(np.abs(want), np.abs(post))
    if np.any(bad):
        j = int(np.flatnonzero(bad)[0])
        what = "node" if j < int(free.sum()) else "mutation"
        out.append(Violation(f"fit:mean_not_mapped:{what}", f"{what} posterior mean {pre[j]!r} -> {post[j]!r}; the piecewise-linear "
                             f"map through breaks {OB.tolist()[:4]}.. -> {rb.tolist()[:4]}.. gives {want[j]!r}"))
    ctx.extra["max_mean_err"] = max(ctx.extra.get("max_mean_err", 0.0),
                                    float(np.max(np.abs(want - post) / np.maximum(np.abs(want), np.abs(post)))))
    moved = np.any(np.abs(post - pre) > 1e-6 * np.abs(pre))
    if moved:
        ctx.label("fit:means_moved")
    if len(rb) >= 3:
        ctx.label("fit:pieces>=2")
    if np.unique(pre_n[free]).size >= 3 and (len(rb) >= 3 or moved):
        ctx.mark_nontrivial()
    return out


# -------------------------------------------------------------------------------- kernels


def make_times(ts, style, vals):
    t_true = ts.nodes_time
    v = np.array(vals, dtype=float)
    tmax = max(float(t_true.max()), 1.0)
    if style == "true":
        t = t_true.copy()
    elif style == "random":
        t = v / 1000.0 * tmax
    elif style == "ties":
        t = np.floor(v / 250.0)  # 0..4
    elif style == "inverted":
        t = t_true.copy()
        sel = v > 700
        t[sel] = (tmax - t_true[sel]) * 0.5
    else:  # near_ties: true times plus increments of a few ulp
        t = t_true * (1.0 + (v % 4) * 2.0 ** -52)
    t = np.asarray(t, dtype=float)
    t = t - t.min()
    return np.ascontiguousarray(t)


def check_area(case, ctx):
    ts = case["ts"]
    if ts.num_edges == 0:
        ctx.discard("area:no_edges")
        return []
    t = make_times(ts, case["style"], case["vals"])
    ep_, ec_ = ts.edges_parent, ts.edges_child
    likes = np.column_stack([np.array(case["muts"], dtype=float), np.array(case["span"], dtype=float) / 8.0])
    likes = np.ascontiguousarray(likes)
    ctx.label("area:style=" + case["style"])
    length = t[ep_] - t[ec_]
    degenerate = bool(np.any(length <= 0))
    if degenerate:
        ctx.label("area:inverted_or_zero_edge")
    out = []
    status, res = call(rescaling.mutational_area, t, likes, ep_, ec_)
    if status != "ok":
        return [Violation("area:raised:" + exc_key(res), f"mutational_area raised {res!r}")]
    counts, offset, duration, index = (np.asarray(x) for x in res)
    ec, eo, ed, ei, (sc, so) = O.brute_area(t, likes, ep_, ec_)
    if counts.shape != ec.shape or duration.shape != ed.shape or index.shape != ei.shape:
        return [Violation("area:shape", f"{counts.shape[0]} intervals returned, {ec.shape[0]} distinct inter-node intervals")]
    if not np.array_equal(index, ei):
        out.append(Violation("area:node_index", f"node interval indexes differ, first at node {int(np.flatnonzero(index != ei)[0])}"))
    if not np.array_equal(duration, ed):
        out.append(Violation("area:duration", "interval durations differ from differences of sorted distinct node times"))
    if np.any(np.abs(counts - ec) > AREA_RTOL * max(sc, 1e-300)):
        k = int(np.argmax(np.abs(counts - ec)))
        out.append(Violation("area:counts", f"interval {k}: mutation rate {counts[k]!r}, brute force {ec[k]!r}"))
    if np.any(np.abs(offset - eo) > AREA_RTOL * max(so, 1e-300)):
        k = int(np.argmax(np.abs(offset - eo)))
        out.append(Violation("area:span", f"interval {k}: span {offset[k]!r}, brute force {eo[k]!r}"))
    if np.unique(t).size >= 4 and degenerate:
        ctx.mark_nontrivial()
    # timescale invariants
    fixedmask = np.ascontiguousarray(t == 0)
    status, res = call(rescaling.mutational_timescale, t, likes, fixedmask, ep_, ec_, case["intervals"])
    if status != "ok":
        _internal_discard(ctx, "timescale", res)
        return out
    ctx.label("area:timescale_returned")
    origin, adjust = (np.asarray(x) for x in res)
    problems = []
    if origin.shape != adjust.shape or origin.size < 2 or origin.size > case["intervals"] + 1:
        problems.append(f"sizes {origin.shape} {adjust.shape} for max_intervals={case['intervals']}")
    else:
        if origin[0] != 0 or adjust[0] != 0:
            problems.append(f"does not start at (0,0): ({origin[0]!r},{adjust[0]!r})")
        if not np.all(np.diff(origin) > 0):
            problems.append("origins not strictly increasing")
        # (origins are rebuilt from cumulative interval durations: node times up to rounding)
        near = np.min(np.abs(origin[:, None] - np.append(0.0, t)[None, :]), axis=1)
        if not np.all(near <= ORDER_RTOL * max(t.max(), 1e-300)):
            problems.append("an origin is not a node time")
        if abs(origin[-1] - t.max()) > ORDER_RTOL * t.max():
            problems.append(f"last origin {origin[-1]!r} is not the oldest node time {t.max()!r}")
        # (interval rates come from a running sum of +x/-x: an empty interval can carry -1e-16)
        if not np.all(np.diff(adjust) >= -ORDER_RTOL * np.max(np.abs(adjust))) or not np.all(np.isfinite(adjust)):
            problems.append(f"images not non-decreasing/finite: {adjust.tolist()[:5]}")
    if problems:
        out.append(Violation("timescale:invalid_map", "; ".join(problems)))
    return out


def check_scale(case, ctx):
    ob = np.append(0.0, np.cumsum(np.array(case["d_o"], dtype=float))) * case["unit_o"]
    rb = np.append(0.0, np.cumsum(np.array(case["d_r"], dtype=float))) * case["unit_r"]
    k = len(case["d_o"])
    x = []
    on_break = False
    for i, f in case["pts"]:
        if i >= k:
            x.append(ob[-1] * (1.0 + f / 8.0))
        else:
            x.append(ob[i] + (ob[i + 1] - ob[i]) * f / 8.0)
            if f == 0 and 0 < i:
                on_break = True
    x = np.array(x, dtype=float)
    fixed = np.array(case["fixed"], dtype=bool)
    ctx.label(f"scale:pieces={k}")
    out = []
    want = O.pl_map(x, ob, rb)
    # point estimates
    status, res = call(rescaling.piecewise_scale_point_estimate, x.copy(), fixed, ob, rb)
    if status != "ok":
        out.append(Violation("scale_point:raised:" + exc_key(res), f"piecewise_scale_point_estimate raised {res!r}"))
    else:
        res = np.asarray(res)
        w = want.copy()
        w[fixed] = x[fixed]
        bad = np.abs(res - w) > MEAN_RTOL * np.maximum(np.abs(res), np.abs(w))
        if np.any(bad):
            j = int(np.flatnonzero(bad)[0])
            kind = "fixed_moved" if fixed[j] else "at_zero" if x[j] == 0 else "on_break" if x[j] in ob else "wrong_value"
            out.append(Violation(f"scale_point:{kind}", f"point {x[j]!r} (fixed={bool(fixed[j])}) -> {res[j]!r}, breaks "
                                 f"{ob.tolist()} -> {rb.tolist()} give {w[j]!r}"))
    # posteriors: gamma natural parameters with the given means (mean 0 impossible: use free points > 0)
    shapes = np.array(case["shapes"], dtype=float)
    pfixed = fixed | (x <= 0)
    post = np.zeros((x.size, 2))
    post[:, 0] = shapes - 1.0
    with np.errstate(divide="ignore"):
        post[:, 1] = np.where(x > 0, shapes / np.where(x > 0, x, 1.0), 1.0)
    pre_mean = (post[:, 0] + 1) / post[:, 1]
    status, res = call(rescaling.piecewise_scale_posterior, np.ascontiguousarray(post), np.ascontiguousarray(pfixed), ob, rb,
                       0.5, case["max_shape"])
    if status != "ok":
        _internal_discard(ctx, "scale_posterior", res)
    elif np.any(~pfixed):
        res = np.asarray(res)
        fr = ~pfixed
        a_, b_ = res[fr].T
        wantp = O.pl_map(pre_mean[fr], ob, rb)
        if not (np.all(np.isfinite(a_)) and np.all(np.isfinite(b_)) and np.all(a_ > -1) and np.all(b_ > 0)):
            out.append(Violation("scale_posterior:improper", f"improper gamma returned: {res[fr][:3].tolist()}"))
        else:
            got = (a_ + 1) / b_
            bad = np.abs(got - wantp) > MEAN_RTOL * np.maximum(np.abs(got), np.abs(wantp))
            if np.any(bad):
                j = int(np.flatnonzero(bad)[0])
                out.append(Violation("scale_posterior:mean_not_mapped", f"posterior with mean {pre_mean[fr][j]!r} -> mean {got[j]!r}, "
                                     f"breaks {ob.tolist()} -> {rb.tolist()} give {wantp[j]!r}"))
            if np.any(a_ + 1 > case["max_shape"] * (1 + SHAPE_RTOL)):
                out.append(Violation("scale_posterior:shape_above_max", f"shape {np.max(a_ + 1)!r} > max_shape {case['max_shape']!r}"))
            if np.any(a_ + 1 >= case["max_shape"] * (1 - 1e-6)):
                ctx.label("scale:shape_cap_active")
    if k >= 2 and on_break and np.unique(x).size >= 3:
        ctx.mark_nontrivial()
    return out


def check(case, ctx):
    ctx.label("kind=" + case["kind"])
    if case["kind"] == "fit":
        return check_fit(case, ctx)
    if case["kind"] == "area":
        return check_area(case, ctx)
    return check_scale(case, ctx)


def describe(case):
    d = {k: v for k, v in case.items() if k not in ("ts", "vals", "muts", "span")}
    if "ts" in case:
        d["ts"] = G.ts_summary(case["ts"])
    return d


def finish(ctx, tier):
    if "max_mean_err" in ctx.extra:
        ctx.extra["sum_over_shards_of_max_mapped_mean_rel_err"] = ctx.extra.pop("max_mean_err")
