"""C08 — dates depend only on topology, sample times and mutation placement.

Oracle (M): date the base input and a copy in which only data the model must ignore was changed
(every metadata column and schema, ancestral/derived states, node populations and the population
table, added monomorphic sites, provenance rows, time_units, top-level metadata / reference
sequence, the input's own mutation times, node flag bits other than NODE_IS_SAMPLE, and — with
phased singletons, i.e. always for the discrete methods and by default for variational_gamma —
individuals added / removed / reshaped). Both runs use set_metadata=False. Required bit-identical:
nodes_time, mutation times matched by (site position, node, order), fit.node_posteriors()
(variational_gamma / inside_outside), fit.mutation_posteriors() (variational_gamma, matched the
same way), posterior_mean of maximization.

The perturbations never touch edges, node times, sample flags, mutation nodes/positions or the
ORDER of node/edge/mutation rows (checked on every case: a harness error otherwise), so both runs
perform the same IEEE operations and equality is exact (DESIGN §4).
"""

import logging
from collections import Counter

import numpy as np
import tskit
from hypothesis import strategies as st

import tsdate

from vt.common import call, exc_key
from vt.gen import meta_b as MB
from vt.gen import ts as G
from vt.runner import Violation

ID = "C08"
LEVEL = "exploration"
RULE = (
    "cases = (generated tree sequence, decorated or bare; drawn subset of 10 irrelevant-data perturbation "
    "kinds with drawn parameters; method; rescaling on/off); non-trivial = >= 2 perturbation kinds applied, "
    ">= 1 mutation and both date() calls succeeded; distinct by SHA-1 of the case"
)
ASSUMPTIONS = [
    "individuals are perturbed only with singletons_phased=True (default) / discrete methods",
    "discrete methods get contemporaneous single-root unary-free inputs and EMPTY edge metadata: with non-empty edge "
    "metadata tskit's simplify inside the prior construction raises LibraryError (reported as a C35 finding candidate)",
    "internal errors (F2 rescaling assertion...) are C35's: the pair is discarded when the BASE run fails; "
    "a perturbed run failing where the base succeeded IS reported (the outcome changed)",
    "exact equality: both runs execute identical floating-point operations",
]

_tlog = logging.getLogger("tsdate")
_tlog.addHandler(logging.NullHandler())
_tlog.propagate = False


def budget(tier):
    if tier == "quick":
        return dict(examples=70, shards=4)
    return dict(examples=600, shards=16)


KINDS = MB.PERTURBATIONS


@st.composite
def strategy_(draw, tier):
    method = draw(st.sampled_from(["variational_gamma", "variational_gamma", "inside_outside", "maximization"]))
    discrete = method != "variational_gamma"
    if discrete:
        contemporaneous, single_root = True, True
    else:
        contemporaneous, single_root = draw(st.integers(0, 2)) > 0, draw(st.integers(0, 3)) > 0
    ts = draw(G.general_ts(tier=tier, contemporaneous=contemporaneous, single_root=single_root, min_muts=1))
    decorated = draw(st.booleans())
    base_fams = (draw(st.sampled_from(MB.ALL_FAMILIES)), draw(st.sampled_from(MB.ALL_FAMILIES)))
    base_pattern = draw(st.sampled_from([(), (2,), (1, 2)]))
    kinds = draw(st.lists(st.sampled_from(KINDS), min_size=1, max_size=6, unique=True))
    p = dict(
        tag=draw(st.integers(1, 6)),
        node_family=draw(st.sampled_from(MB.ALL_FAMILIES)),
        mut_family=draw(st.sampled_from(MB.ALL_FAMILIES)),
        state_style=draw(st.sampled_from(MB.STATE_STYLES)),
        npop=draw(st.sampled_from([0, 1, 3])),
        ind_pattern=draw(st.sampled_from([(), (1,), (2,), (3,), (2, 1), (0, 2)])),
        n_prov=draw(st.integers(0, 3)),
        prov_clear=draw(st.booleans()),
        time_units=draw(st.sampled_from(["uncalibrated", "years", "generations", "ticks"])),
        mono_fracs=draw(st.lists(st.floats(0, 1, exclude_max=True, allow_nan=False), min_size=1, max_size=6)),
        mono_integer=draw(st.booleans()),
        mono_equalise=draw(st.booleans()),
        # non-empty edge metadata makes the discrete methods crash in tskit's simplify (C35's)
        edge_md=not discrete,
    )
    return dict(ts=ts, method=method, decorated=decorated, base_fams=base_fams, base_pattern=base_pattern,
                kinds=kinds, p=p, mu=10.0 ** draw(st.integers(-4, 0)),
                rescale=draw(st.integers(0, 3)) == 0, max_iter=draw(st.sampled_from([1, 3, 5])))


def strategy(tier):
    return strategy_(tier)


def build_pair(case):
    ts = case["ts"]
    if case["decorated"]:
        ts = MB.decorate_b(ts, case["base_fams"][0], case["base_fams"][1], populations=2,
                           ind_pattern=case["base_pattern"], extra=True, migrations=0, tag=0,
                           edge_md=case["p"]["edge_md"])
    ts2 = MB.perturb(ts, case["kinds"], case["p"])
    return ts, ts2


def _same(a, b):
    a, b = np.asarray(a), np.asarray(b)
    if a.shape != b.shape or a.dtype != b.dtype:
        return False
    if a.dtype.names:
        return all(_same(a[n], b[n]) for n in a.dtype.names)
    if a.dtype.kind == "f":
        return bool(np.array_equal(a, b, equal_nan=True))
    return bool(np.array_equal(a, b))


def _first_diff(a, b):
    a, b = np.asarray(a, dtype=float).ravel(), np.asarray(b, dtype=float).ravel()
    if a.shape != b.shape:
        return f"shape {a.shape} vs {b.shape}"
    d = np.flatnonzero(~((a == b) | (np.isnan(a) & np.isnan(b))))
    return f"index {int(d[0])}: {a[d[0]]!r} vs {b[d[0]]!r} ({len(d)} of {a.size} differ)" if len(d) else "?"


def run(ts, case):
    method = case["method"]
    kw = dict(mutation_rate=case["mu"], method=method, set_metadata=False, return_fit=True, record_provenance=False)
    if method == "variational_gamma":
        kw.update(max_iterations=case["max_iter"])
        if not case["rescale"]:
            kw.update(rescaling_intervals=0)
    else:
        kw.update(population_size=100.0)
    return call(tsdate.date, ts, **kw)


def mutation_time_multiset(ts):
    pos = ts.sites_position[ts.mutations_site]
    c = Counter()
    for x, u, t in zip(pos.tolist(), ts.mutations_node.tolist(), ts.mutations_time.tolist()):
        c[(x, u, "nan" if t != t else float(t).hex())] += 1
    return c


def check(case, ctx):
    method = case["method"]
    ts1, ts2 = build_pair(case)
    kinds = list(case["kinds"])
    # harness sanity: the relevant data and its row order are identical
    same_input = (
        np.array_equal(ts1.edges_left, ts2.edges_left) and np.array_equal(ts1.edges_right, ts2.edges_right)
        and np.array_equal(ts1.edges_parent, ts2.edges_parent) and np.array_equal(ts1.edges_child, ts2.edges_child)
        and np.array_equal(ts1.nodes_time, ts2.nodes_time)
        and np.array_equal(ts1.nodes_flags & 1, ts2.nodes_flags & 1)
        and np.array_equal(ts1.mutations_node, ts2.mutations_node)
        and np.array_equal(ts1.sites_position[ts1.mutations_site], ts2.sites_position[ts2.mutations_site])
        and ts1.sequence_length == ts2.sequence_length
    )
    if not same_input:
        raise RuntimeError(f"perturbation {kinds} changed relevant input data (harness bug)")
    ctx.label("method=" + method, *["kind=" + k for k in kinds], f"n_kinds={min(len(kinds), 4)}{'+' if len(kinds) >= 4 else ''}")
    if case["rescale"] and method == "variational_gamma":
        ctx.label("rescaling_on")
    if "monomorphic" in kinds:
        ctx.label(f"monomorphic_added={min(ts2.num_sites - ts1.num_sites, 3)}")
        if ts2.num_sites == ts2.num_mutations and ts1.num_sites != ts1.num_mutations:
            ctx.label("sites_equal_mutations_after_padding")
    s1, r1 = run(ts1, case)
    if s1 != "ok":
        ctx.discard(("rejected:" + str(r1)[:40]) if s1 == "rejected" else ("internal:" + exc_key(r1)))
        return []
    s2, r2 = run(ts2, case)
    if s2 != "ok":
        if "individuals" in kinds and s2 == "rejected":
            # cannot happen with phased singletons; keep it visible if it ever does
            pass
        return [Violation(f"perturbed_run_fails:{exc_key(r2)}",
                          f"base input dated fine, perturbed copy ({kinds}) raised {r2!r}")]
    if len(kinds) >= 2 and ts1.num_mutations >= 1:
        ctx.mark_nontrivial()
    d1, f1 = r1
    d2, f2 = r2
    out = []
    tag = "+".join(sorted(kinds)) if len(kinds) == 1 else "multi"
    if not _same(d1.nodes_time, d2.nodes_time):
        out.append(Violation(f"nodes_time_differs:{method}", f"perturbation {kinds}: nodes_time {_first_diff(d1.nodes_time, d2.nodes_time)}",
                             kinds=kinds, single=tag))
    if mutation_time_multiset(d1) != mutation_time_multiset(d2):
        out.append(Violation(f"mutations_time_differs:{method}", f"perturbation {kinds}: mutation times (by position,node) differ", kinds=kinds))
    if method in ("variational_gamma", "inside_outside"):
        p1, p2 = f1.node_posteriors(), f2.node_posteriors()
        if not _same(p1, p2):
            out.append(Violation(f"node_posteriors_differ:{method}", f"perturbation {kinds}: fit.node_posteriors() not bit-identical", kinds=kinds))
    else:
        if not _same(f1.posterior_mean, f2.posterior_mean):
            out.append(Violation(f"posterior_mean_differs:{method}", f"perturbation {kinds}: {_first_diff(f1.posterior_mean, f2.posterior_mean)}", kinds=kinds))
    if method == "variational_gamma":
        m1, m2 = f1.mutation_posteriors(), f2.mutation_posteriors()
        k1, k2 = MB.mutation_keys(ts1), MB.mutation_keys(ts2)
        o1, o2 = sorted(range(len(k1)), key=k1.__getitem__), sorted(range(len(k2)), key=k2.__getitem__)
        if [k1[i] for i in o1] != [k2[i] for i in o2] or not _same(m1[o1], m2[o2]):
            out.append(Violation(f"mutation_posteriors_differ:{method}", f"perturbation {kinds}: fit.mutation_posteriors() not bit-identical", kinds=kinds))
    return out


def describe(case):
    return dict(method=case["method"], kinds=list(case["kinds"]), decorated=case["decorated"],
                rescale=case["rescale"], ts=G.ts_summary(case["ts"]))
