"""C06 — changing time units rescales all outputs exactly.

Oracle (M): run A = date(ts, mu, min_branch_length[, population_size, eps, timepoints]) and
run B with mu/c, min_branch_length*c[, population_size*c, eps*c, timepoints*c]. Both runs must
end in the same outcome class (both return, or both raise the same exception class); when both
return, every output time of B (node times, mutation times, "mn" metadata, fit posterior means)
equals c * A's and every variance c^2 * A's:

* c = 2^k: bit-exact (all IEEE operations commute with a power-of-two scaling as long as no
  sub/supernormal range is touched: |k| <= 40, mu in [2.5e-8, 1], times <= ~1e20);
* other c: relative tolerance 1e-6 plus the confirmation rule of DESIGN §4 (a mismatch must
  persist for six factors c(1 +- g 2^-20)) and a tie test (the base run must itself be stable
  under sixteen generic factors 1 +- g 2^-20, see vt.oracle.equivar_c), so that rounding ties
  at argmax / searchsorted / unique / phase<0.5 discontinuities are counted as discards, never
  as violations.

Calibration on the unchanged tree (3 x 1500 cases, seeds 1-3; 2 600 non-power-of-two pairs):
worst relative deviation 8.1e-8 for variational_gamma (Newton iterations in approx.py stop at a
relative step of sqrt(eps) = 1.5e-8, amplified by the EP sweeps), 1.0e-11 for inside_outside,
2.5e-15 for maximization; 99 % of pairs are below 1e-9. Tolerance 1e-6 as stated in the design;
a pair above it that is not a genuine defect is unstable under the generic factors next to 1
and is discarded by the tie test. Power-of-two factors: 1 900 pairs, 0 mismatches of any bit.
First-stage mismatches (all rounding ties of rescaling with 2 or 5 intervals): ~0.6 % of cases.
"""

import numpy as np
from hypothesis import strategies as st

from vt.gen import ts as G
from vt.oracle import equivar_c as E
from vt.runner import Violation

ID = "C06"
LEVEL = "exploration"
RULE = (
    "cases = (generated tree sequence: simulated/built, recombining, polytomies, finite sites; for "
    "variational_gamma also historical samples and diploid individuals) x method x drawn configuration "
    "(mu, min_branch_length, EP iterations, rescaling_intervals in {0,2,5,1000}, segregating-sites/path "
    "rescaling, root regularisation, max_shape, unphased singletons; eps, Ne as float / piecewise history / "
    "prior grid with 2..20 quantile or explicit timepoints, lognorm/gamma, log/linear space) x factor c "
    "(half 2^k with |k|<=40, half log-uniform in [1e-9,1e9]); non-trivial = input has >= 2 trees and "
    ">= 3 mutations and both runs returned (or the pair is reported as a violation); distinct by SHA-1 of (tables, configuration, c)"
)
ASSUMPTIONS = [
    "historical samples (variational_gamma only): the sample times of the input are times and are multiplied "
    "by c as well (the statement names only parameters; with unscaled sample ages the relation is false by "
    "construction). About 7/8 of variational cases and all discrete cases use contemporaneous samples, where "
    "the statement applies literally and input node times are left unscaled (dating ignores them)",
    "a piecewise population-size history is scaled in both its sizes and its epoch breaks (both are times)",
    "eps and min_branch_length are always passed explicitly (defaults are absolute constants, outside the statement)",
    "both runs raising the same exception class counts as agreement and is discarded (e.g. F2 "
    "'Use fewer rescaling intervals', F1 bad node time ordering); which inputs may raise belongs to C35",
    "non-power-of-two factors: tolerance 1e-6 with confirmation at six factors c(1+-g*2^-20) and a tie test at sixteen generic factors 1+-g*2^-20; "
    "cases with a singleton phase within 1e-9 of 0.5 are discarded for such factors",
    "numpy/tskit/msprime trusted",
]
TOL = 1e-6


def budget(tier):
    if tier == "quick":
        return dict(examples=200, shards=4)
    return dict(examples=500, shards=16)


@st.composite
def strategy_(draw, tier):
    method = draw(st.sampled_from(E.METHODS))
    ts, diploid = draw(E.input_ts(tier, method))
    cfg = draw(E.config(method, allow_unphased=diploid))
    c, pow2 = draw(E.factor())
    return dict(ts=ts, cfg=cfg, c=c, pow2=pow2)


def strategy(tier):
    return strategy_(tier)


def check(case, ctx):
    ts, cfg, c, pow2 = case["ts"], case["cfg"], case["c"], case["pow2"]
    method = cfg["method"]
    ctx.label("method=" + method, "c=2^k" if pow2 else "c=real",
              "c>1" if c > 1 else "c<1")
    if method == "variational_gamma":
        ctx.label(f"rescaling_intervals={cfg['rescaling_intervals']}",
                  "historical" if not G.is_contemporaneous(ts) else "contemporaneous")
        if not cfg["singletons_phased"]:
            ctx.label("unphased_singletons")
    else:
        ctx.label("prior=" + cfg["prior"], "space=" + cfg["probability_space"])
    verdict, info = E.judge(ts, cfg, c, pow2, "time", ctx, TOL)
    if verdict == "discard":
        ctx.discard(info)
        return []
    if ts.num_trees >= 2 and ts.num_mutations >= 3:
        ctx.mark_nontrivial()  # also for violations: the runner's too-few-cases test precedes its verdict
    if verdict == "violation":
        key, msg = info
        return [Violation(f"time_units:{method}:{key}", f"{method}, c={c!r} ({'2^k' if pow2 else 'real'}): {msg}",
                          cfg=E.describe_cfg(cfg))]
    if not pow2:
        r = info
        ctx.label("relerr:" + ("vg" if method == "variational_gamma" else "discrete") + ":" +
                  ("<=1e-12" if r <= 1e-12 else "<=1e-9" if r <= 1e-9 else "<=1e-6"))
        k = "max_relerr_" + method  # kept as a 1-element list: the runner concatenates lists across shards
        ctx.extra[k] = [max(ctx.extra.get(k, [0.0])[0], r)]
    return []


def finish(ctx, tier):
    for k in list(ctx.extra):
        if k.startswith("max_relerr_") and isinstance(ctx.extra[k], list):
            ctx.extra[k] = float(max(ctx.extra[k]))
    # DESIGN §4: tie discards must stay rare, otherwise the generator sits on discontinuities and
    # the run is inconclusive (harness error), not a pass
    ties = sum(v for k, v in ctx.discards.items() if k.startswith("numerical tie"))
    if ctx.evaluations >= 200 and ties > 0.02 * ctx.evaluations and not ctx.buckets:  # never mask a violation
        ctx.harness_errors.append(f"{ties} numerical-tie discards in {ctx.evaluations} cases (> 2 %)")


def describe(case):
    return dict(cfg=E.describe_cfg(case["cfg"]), c=case["c"], pow2=case["pow2"], ts=G.ts_summary(case["ts"]))
