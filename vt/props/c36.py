"""C36 — the precomputed prior cache is crash-safe and exact.

Fault enumeration, three parts:
 1. round trip: table read back from the cache file is identical to the freshly computed one;
 2. crash at byte k: a forked writer is killed by the kernel (RLIMIT_FSIZE=k, SIGXFSZ default
    action) the moment any file it writes would exceed k bytes; the next construction must
    use the complete correct table or recompute it;
 3. schedules: two writer processes run under an LD_PRELOAD gate (vt/native/vtgate.c) that
    hands every open/write/close/rename/unlink under the cache directory to the harness; a
    Hypothesis-drawn schedule interleaves the two writers, reads by a third party and
    kill-at-syscall crashes. Every read must yield the correct table.
"""

import ctypes
import os
import resource
import select
import shutil
import signal
import subprocess
import sys
import tempfile

import numpy as np
from hypothesis import strategies as st

from vt.runner import ROOT, Violation

ID = "C36"
LEVEL = "fault_enumeration"
EXHAUSTIVE = True
NO_SHRINK = False
RULE = (
    "crash points: every byte offset k of the cache file for the enumerated sizes n (file killed at "
    "exactly k bytes by RLIMIT_FSIZE) plus Hypothesis-drawn (n, k); schedules: Hypothesis-drawn "
    "interleavings of the gated syscalls of two writer processes, third-party reads and kill-at-syscall "
    "crashes. Non-trivial = the write was really interrupted (0 < k < file size) or a read/other writer "
    "acted while a writer was between two of its syscalls; distinct by (n, k) resp. by the executed trace"
)
ASSUMPTIONS = [
    "a process crash is modelled as SIGKILL/SIGXFSZ at a write boundary (page cache survives; no power loss)",
    "schedules are owned at syscall granularity (open/write/close/rename/unlink/link/ftruncate under the "
    "cache dir); interleavings inside one write(2) are not explored",
    "the freshly computed table itself is judged by C14, here it is the reference",
    "writers are forked from the harness after import (same interpreter state as a fresh process that "
    "has imported tsdate)",
]

SIZES = (5, 20, 60)

# Writers that run as threads of the harness must look like separate processes to the code
# under test: give each one its own os.getpid() (a temp-file name derived from the pid is a
# legitimate multi-process design and must not collide here).
import threading as _threading

_real_getpid = os.getpid
_tls = _threading.local()
_fake_pid = [4_000_000]


def _getpid():
    return getattr(_tls, "fake_pid", None) or _real_getpid()


os.getpid = _getpid
_GATE = os.path.join(ROOT, ".cache", "vtgate", "libvtgate.so")
_fresh = {}
_points = {}


# --------------------------------------------------------------------------
def setup(tier):
    """build the gate shim and re-exec under LD_PRELOAD (before tsdate is imported)"""
    if os.environ.get("VT_GATE") == "1":
        return
    src = os.path.join(ROOT, "vt", "native", "vtgate.c")
    os.makedirs(os.path.dirname(_GATE), exist_ok=True)
    ok = False
    for cc in ("cc", "gcc", "clang"):
        try:
            r = subprocess.run([cc, "-shared", "-fPIC", "-O1", "-o", _GATE, src, "-ldl"],
                               capture_output=True, text=True)
            if r.returncode == 0:
                ok = True
                break
        except OSError:
            continue
    if not ok:
        os.environ["VT_GATE"] = "unavailable"
        return
    env = dict(os.environ, VT_GATE="1")
    env["LD_PRELOAD"] = _GATE + (":" + env["LD_PRELOAD"] if env.get("LD_PRELOAD") else "")
    sys.stdout.flush()
    os.execve(sys.executable, [sys.executable, "-m", "vt.runner"] + sys.argv[1:], env)


def gate_available():
    return os.environ.get("VT_GATE") == "1"


def budget(tier):
    if tier == "quick":
        return dict(examples=50, shards=4, min_nontrivial=2)
    # 400 drawn cases per shard on top of the complete crash-point enumeration (a schedule with
    # n=400 costs ~1.5 s, a forked-writer schedule ~3-5 s on this VM): ~20 min on 16 cores
    return dict(examples=400, shards=16)


def _scratch():
    base = os.path.join(ROOT, ".cache", "c36")
    os.makedirs(base, exist_ok=True)
    return tempfile.mkdtemp(prefix="x", dir=base)


def _cct():
    from tsdate.prior import ConditionalCoalescentTimes

    return ConditionalCoalescentTimes


def _construct(n, d):
    """what a later run sees: ('ok', table) or ('raised', exc)"""
    old = os.environ.get("XDG_CACHE_HOME")
    os.environ["XDG_CACHE_HOME"] = d
    try:
        import logging

        logging.disable(logging.CRITICAL)
        try:
            obj = _cct()(n)
            return "ok", np.array(obj.approx_priors, copy=True)
        except Exception as e:  # any failure of a later run is a verdict, not a harness bug
            return "raised", e
        finally:
            logging.disable(logging.NOTSET)
    finally:
        if old is None:
            os.environ.pop("XDG_CACHE_HOME", None)
        else:
            os.environ["XDG_CACHE_HOME"] = old


def _restore_env(old):
    if old is None:
        os.environ.pop("XDG_CACHE_HOME", None)
    else:
        os.environ["XDG_CACHE_HOME"] = old


def fresh_table(n):
    """reference: computed in memory in an empty cache dir (also warms every JIT path used)"""
    if n not in _fresh:
        d = _scratch()
        try:
            status, t = _construct(n, d)
            if status != "ok":
                raise RuntimeError(f"cannot compute fresh table for n={n}: {t!r}")
            _fresh[n] = (t, _file_size(d))
        finally:
            shutil.rmtree(d, ignore_errors=True)
    return _fresh[n]


def _cache_files(d):
    out = []
    for r, _, fs in os.walk(d):
        for f in fs:
            out.append(os.path.join(r, f))
    return sorted(out)


def _file_size(d):
    fs = [f for f in _cache_files(d) if f.endswith(".txt")]
    return os.path.getsize(fs[0]) if fs else 0


def _judge(status, val, ref, where):
    if status == "raised":
        return Violation(f"{where}:reader_raised:{type(val).__name__}",
                         f"later construction raised {type(val).__name__}: {str(val)[:120]}")
    if val.shape != ref.shape or not np.array_equal(val, ref):
        return Violation(f"{where}:wrong_table_used",
                         f"later construction silently used a table of shape {val.shape} (expected {ref.shape})"
                         if val.shape != ref.shape else "later construction used a table with wrong values")
    return None


# --------------------------------------------------------------------------
# part 2: crash at byte k
# --------------------------------------------------------------------------


def crash_case(n, k):
    """returns (violation or None, interrupted?)"""
    ref, full = fresh_table(n)
    d = _scratch()
    try:
        pid = os.fork()
        if pid == 0:
            try:
                dn = os.open(os.devnull, os.O_WRONLY)
                os.dup2(dn, 1)
                os.dup2(dn, 2)
                signal.signal(signal.SIGXFSZ, signal.SIG_DFL)
                resource.setrlimit(resource.RLIMIT_FSIZE, (k, k))
                os.environ["XDG_CACHE_HOME"] = d
                _cct()(n)
            finally:
                os._exit(0)
        _, status = os.waitpid(pid, 0)
        killed = os.WIFSIGNALED(status)
        st_, val = _construct(n, d)
        v = _judge(st_, val, ref, "after_crash")
        if v is None:
            # and once more: whatever the first later run left behind must also be right
            st2, val2 = _construct(n, d)
            v = _judge(st2, val2, ref, "after_crash")
        if v is not None:
            v.detail.update(n=n, k=k, file_size=full, writer_killed=killed)
        return v, killed
    finally:
        shutil.rmtree(d, ignore_errors=True)


# --------------------------------------------------------------------------
# part 3: schedules under the gate
# --------------------------------------------------------------------------


class Writer:
    """One writer under the gate: a forked process (mode 'proc') or a thread of this process
    (mode 'thread'; a 'crash' parks the thread forever, its user-space buffers are lost like a
    killed process's)."""

    def __init__(self, n, d, name, mode="proc"):
        self.name = name
        self.mode = mode
        rq_r, rq_w = os.pipe()
        gr_r, gr_w = os.pipe()
        self.pid = None
        if mode == "proc":
            pid = os.fork()
            if pid == 0:
                try:
                    os.close(rq_r)
                    os.close(gr_w)
                    dn = os.open(os.devnull, os.O_WRONLY)
                    os.dup2(dn, 1)
                    os.dup2(dn, 2)
                    os.environ["XDG_CACHE_HOME"] = d
                    lib = ctypes.CDLL(None)
                    lib.vtgate_enable(rq_w, gr_r, d.encode(), 0)
                    _cct()(n)
                    lib.vtgate_disable()
                finally:
                    os._exit(0)
            os.close(rq_w)
            os.close(gr_r)
            self.pid = pid
        else:
            import threading

            _fake_pid[0] += 1
            fake = _fake_pid[0]

            def body():
                _tls.fake_pid = fake
                lib = ctypes.CDLL(None)
                lib.vtgate_enable(rq_w, gr_r, d.encode(), 1)
                try:
                    _cct()(n)
                except Exception:
                    pass
                finally:
                    lib.vtgate_disable()
                    os.close(gr_r)
                    os.close(rq_w)  # EOF tells the harness this writer has finished

            self.thread = threading.Thread(target=body, daemon=True)
            self.thread.start()
        self.req = rq_r
        self.grant = gr_w
        self.buf = b""
        self.pending = None
        self.pending_n = 0
        self.done = False
        self.ops = 0
        self.killed = False

    def poll(self, timeout=120):
        """block until the writer is at its next gated syscall or has finished"""
        if self.done or self.pending is not None:
            return
        while b"\n" not in self.buf:
            po = select.poll()
            po.register(self.req, select.POLLIN | select.POLLHUP)
            r = po.poll(timeout * 1000)
            if not r:
                raise RuntimeError(f"writer {self.name} neither progressed nor exited in {timeout}s")
            chunk = os.read(self.req, 4096)
            if not chunk:
                self._reap()
                return
            self.buf += chunk
        line, self.buf = self.buf.split(b"\n", 1)
        parts = line.decode().split(" ", 2)
        self.pending = parts[0]
        self.pending_n = int(parts[1])

    def _reap(self):
        if not self.done:
            if self.pid is not None:
                os.waitpid(self.pid, 0)
            self.done = True
            os.close(self.req)
            os.close(self.grant)

    def step(self, kill=False, partial=None):
        self.poll()
        if self.done:
            return None
        op = self.pending
        self.pending = None
        msg = b"g"
        if partial is not None:
            msg = b"p" + int(partial).to_bytes(8, "little")
        elif kill:
            msg = b"k"
        try:
            os.write(self.grant, msg)
        except OSError:
            pass
        self.ops += 1
        if kill or partial is not None:
            self.killed = True
            if self.mode == "proc":
                self._reap()
            else:  # the parked thread never reads again; it keeps its own fds (a leak we accept)
                self.done = True
                os.close(self.req)
                os.close(self.grant)
            return ("KILL@" if partial is None else f"PARTIAL{partial}@") + op
        self.poll()
        return op

    def midway(self):
        return (not self.done) and self.ops > 0

    def abort(self):
        if self.done:
            return
        if self.mode == "proc":
            try:
                os.kill(self.pid, signal.SIGKILL)
            except OSError:
                pass
            self._reap()
        else:
            self.step(kill=True)


def syscall_trace(n):
    """dry run of one gated writer: [(op, nbytes)] of every gated syscall it performs"""
    d = _scratch()
    old = os.environ.get("XDG_CACHE_HOME")
    os.environ["XDG_CACHE_HOME"] = d
    w = Writer(n, d, "dry", mode="thread")
    out = []
    try:
        w.poll()
        while not w.done:
            out.append((w.pending, w.pending_n))
            w.step()
        return out
    finally:
        w.abort()
        _restore_env(old)
        shutil.rmtree(d, ignore_errors=True)


def crash_points(n):
    """every point at which a single writer can die: before each gated syscall, and after each
    proper prefix of the bytes of each write"""
    if n in _points:
        return _points[n]
    pts = []
    trace = syscall_trace(n)
    for i, (op, nb) in enumerate(trace):
        pts.append((i, None))
        if op == "write":
            pts += [(i, m) for m in range(1, nb)]
    pts.append((len(trace), None))  # after the last syscall: the writer completes
    _points[n] = pts
    return pts


def gated_crash_case(n, point):
    """single writer (thread) dies at `point` = (syscall index, partial bytes or None)"""
    ref, _ = fresh_table(n)
    idx, partial = point
    d = _scratch()
    old = os.environ.get("XDG_CACHE_HOME")
    os.environ["XDG_CACHE_HOME"] = d
    w = Writer(n, d, "W", mode="thread")
    trace = []
    try:
        w.poll()
        i = 0
        while not w.done:
            if i == idx:
                trace.append(w.step(kill=partial is None, partial=partial))
                break
            trace.append(w.step())
            i += 1
        st_, val = _construct(n, d)
        v = _judge(st_, val, ref, "after_crash")
        if v is None:
            st2, val2 = _construct(n, d)
            v = _judge(st2, val2, ref, "after_crash")
        if v is not None:
            v.detail.update(n=n, point=list(point), trace=trace)
        return v, w.killed, trace
    finally:
        w.abort()
        _restore_env(old)
        shutil.rmtree(d, ignore_errors=True)


def schedule_case(n, steps, mode="proc"):
    ref, _ = fresh_table(n)
    d = _scratch()
    trace = []
    nontrivial = False
    w = []
    old = os.environ.get("XDG_CACHE_HOME")
    os.environ["XDG_CACHE_HOME"] = d
    try:
        w = [Writer(n, d, "W1", mode), Writer(n, d, "W2", mode)]
        for x in w:
            x.poll()
        killed_once = set()
        for s in steps:
            a = s % 6
            if a in (0, 1, 2, 3):
                x = w[a // 2]
                other = w[1 - a // 2]
                if x.done:
                    continue
                if other.midway():
                    nontrivial = True
                op = x.step()
                trace.append(f"{x.name}:{op}")
            elif a == 4:
                if any(x.midway() for x in w):
                    nontrivial = True
                st_, val = _construct(n, d)
                trace.append("READ")
                v = _judge(st_, val, ref, "schedule")
                if v is not None:
                    v.detail.update(n=n, trace=trace)
                    return v, nontrivial, trace
            else:
                i = (s // 6) % 2
                x = w[i]
                if x.done or i in killed_once or x.ops == 0:
                    continue
                killed_once.add(i)
                op = x.step(kill=True)
                nontrivial = True
                trace.append(f"{x.name}:{op}")
        # run the survivors to completion, alternating
        guard = 0
        while not all(x.done for x in w):
            for x in w:
                if not x.done:
                    op = x.step()
                    trace.append(f"{x.name}:{op}")
            guard += 1
            if guard > 10000:
                raise RuntimeError("writers do not terminate")
        for _ in range(2):
            st_, val = _construct(n, d)
            trace.append("READ")
            v = _judge(st_, val, ref, "schedule")
            if v is not None:
                v.detail.update(n=n, trace=trace)
                return v, nontrivial, trace
        return None, nontrivial, trace
    finally:
        for x in w:
            x.abort()
        _restore_env(old)
        shutil.rmtree(d, ignore_errors=True)


# --------------------------------------------------------------------------
# runner interface
# --------------------------------------------------------------------------


@st.composite
def strategy_(draw, tier):
    kinds = ["gcrash"] * 3 + ["schedule"] * 8 + ["crash"] if gate_available() else ["crash"]
    kind = draw(st.sampled_from(kinds))
    if kind == "crash":  # kernel-enforced crash (RLIMIT_FSIZE): independent of the gate shim
        n = draw(st.sampled_from([7, 20, 33, 60]))
        return dict(kind=kind, n=n, kfrac=draw(st.floats(0, 1.02)))
    if kind == "gcrash":
        n = draw(st.sampled_from([7, 33, 100, 170, 400] if tier == "thorough" else [7, 33, 100, 170]))
        return dict(kind=kind, n=n, pfrac=draw(st.floats(0, 1)))
    # n >= 170: the file exceeds one 8 KiB buffer, so a write is several syscalls
    n = draw(st.sampled_from([5, 60, 170, 400]))
    steps = draw(st.lists(st.integers(0, 11), min_size=0, max_size=40))
    # writers as threads (cheap) or, for 1 case in 16, as forked processes (a fork of the
    # harness costs seconds on this VM); both run the same gated syscall protocol
    mode = "proc" if draw(st.integers(0, 15)) == 0 else "thread"
    return dict(kind=kind, n=n, steps=steps, mode=mode)


def strategy(tier):
    return strategy_(tier)


def check(case, ctx):
    kind = case["kind"]
    if kind == "crash_exact":  # replay of an enumerated crash point
        v, _, _ = gated_crash_case(case["n"], tuple(case["point"]))
        return [v] if v else []
    if kind == "roundtrip":
        ref, _ = fresh_table(case["n"])
        d = _scratch()
        try:
            s1, t1 = _construct(case["n"], d)
            s2, t2 = _construct(case["n"], d)
            v = _judge(s1, t1, ref, "roundtrip") or _judge(s2, t2, ref, "roundtrip")
            return [v] if v else []
        finally:
            shutil.rmtree(d, ignore_errors=True)
    if kind == "crash":
        n = case["n"]
        _, full = fresh_table(n)
        k = int(round(case["kfrac"] * full))
        v, killed = crash_case(n, k)
        ctx.label("rlimit_crash", "writer_killed" if killed else "writer_completed")
        if 0 < k < full:
            ctx.mark_nontrivial()
        return [v] if v else []
    if not gate_available():
        ctx.discard("gate shim unavailable")
        return []
    if kind == "gcrash":
        n = case["n"]
        pts = crash_points(n)
        pt = pts[min(len(pts) - 1, int(case["pfrac"] * len(pts)))]
        v, killed, trace = gated_crash_case(n, pt)
        ctx.label("gated_crash", f"gated_crash:n={n}", "writer_killed" if killed else "writer_completed")
        if killed and pt[0] > 0:
            ctx.mark_nontrivial()
        return [v] if v else []
    v, nontrivial, trace = schedule_case(case["n"], case["steps"], case.get("mode", "proc"))
    ctx.label("schedule", f"schedule:n={case['n']}", "schedule:" + case.get("mode", "proc"))
    if any("KILL" in t for t in trace):
        ctx.label("schedule_with_kill")
    if "READ" in trace[:-2]:
        ctx.label("schedule_with_midway_read")
    if nontrivial:
        ctx.mark_nontrivial()
    if len(ctx.samples) < 3 and nontrivial:
        ctx.sample(dict(kind="schedule", n=case["n"], trace=trace[:40]))
    return [v] if v else []


def describe(case):
    return {k: v for k, v in case.items()}


def extra(ctx, tier, shard):
    """round trips + exhaustive crash offsets, split over shards by k"""
    nshards = max(1, getattr(ctx, "nshards", 1))
    sizes = (5,) if tier == "quick" else SIZES
    exhaustive = True
    for n in SIZES:
        ref, full = fresh_table(n)
        if shard == 0:
            # part 1: write then read back
            d = _scratch()
            try:
                s1, t1 = _construct(n, d)
                s2, t2 = _construct(n, d)
                ctx.evaluations += 1
                ctx.add_nontrivial(("roundtrip", n))
                v = _judge(s1, t1, ref, "roundtrip") or _judge(s2, t2, ref, "roundtrip")
                if v is None and _file_size(d) != full:
                    v = Violation("roundtrip:file_size", "cache file size differs between identical runs")
                if v is not None:
                    ctx.violation(v, case=dict(kind="roundtrip", n=n))
            finally:
                shutil.rmtree(d, ignore_errors=True)
    for n in sizes:
        ref, full = fresh_table(n)
        if gate_available():
            pts = crash_points(n)
            mine = [p for j, p in enumerate(pts) if j % nshards == shard]
            for pt in mine:
                if ctx.out_of_time():
                    ctx.budget_exhausted = True
                    exhaustive = False
                    break
                v, killed, trace = gated_crash_case(n, pt)
                ctx.evaluations += 1
                ctx.label("crash_enum", f"crash_enum:n={n}")
                if killed and pt[0] > 0:
                    ctx.add_nontrivial(("crash", n, pt))
                if v is not None:
                    ctx.violation(v, case=dict(kind="crash_exact", n=n, point=list(pt)))
            if shard == 0:
                ctx.sample(dict(kind="crash_enumeration", n=n, file_bytes=full, crash_points=len(pts),
                                syscalls=[f"{op}:{nb}" for op, nb in syscall_trace(n)]))
        else:
            for k in [k for k in range(0, full + 2) if k % nshards == shard]:
                if ctx.out_of_time():
                    ctx.budget_exhausted = True
                    exhaustive = False
                    break
                v, killed = crash_case(n, k)
                ctx.evaluations += 1
                ctx.label("crash_enum_rlimit", f"crash_enum:n={n}")
                if 0 < k < full:
                    ctx.add_nontrivial(("crash", n, k))
                if v is not None:
                    ctx.violation(v, case=dict(kind="crash", n=n, kfrac=k / full))
    ctx.extra["exhaustive"] = exhaustive
    ctx.extra["exhaustive_over"] = (f"every crash point of a single writer (before each gated syscall and after each "
                                    f"proper byte prefix of each write) for n in {list(sizes)}")
    ctx.extra["gate_shim"] = "active" if gate_available() else "unavailable (schedule sub-check skipped)"
