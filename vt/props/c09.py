"""C09 — results are deterministic, independent of thread count, and prior reuse is harmless.

Three sub-checks:
 repeat  (M): the same call twice in one process, and for the discrete methods with
              num_threads in {None, 1, 2, 4}: output tables byte-identical.
 procs   (M): a batch of generated calls is executed by fresh worker processes started with
              different PYTHONHASHSEED values; SHA-256 of every output must agree between the
              processes and with the in-process result.
 reuse   (H): a drawn sequence of inside_outside / maximization calls on ONE prior object vs the
              same calls with a freshly built prior each time: results agree to 1e-9; afterwards
              the reused prior, viewed in linear space, equals a fresh one to 1e-12.
"""

import hashlib
import json
import os
import shutil
import subprocess
import sys
import tempfile

import numpy as np
from hypothesis import strategies as st

import tsdate

from vt.common import call, exc_key, max_rel_err, node_metadata_mn_vr
from vt.gen import ts as G
from vt.runner import ROOT, Violation, shard_seed

ID = "C09"
LEVEL = "exploration"
RULE = (
    "repeat: generated input x method x options (incl. approximate priors from small lookup tables) run twice "
    "with a different call on the same input in between, and (discrete methods) under several num_threads; "
    "procs: batch of generated calls, each discrete call with a twin that differs only in the prior "
    "parameterisation, re-run in fresh processes with PYTHONHASHSEED in {0, 1, seed-derived}, every process in a "
    "different batch order; "
    "reuse: drawn sequences of discrete-method calls with mixed probability spaces on one prior object. "
    "Non-trivial = a reuse sequence with a linear call after a logarithmic one, or a repeat case with >= 2 "
    "distinct (mutations, span) likelihood keys run with num_threads >= 2, or a multi-process case; distinct by digest"
)
ASSUMPTIONS = [
    "the multiprocessing pool's completion order is the OS's: the harness repeats over thread counts but does not own that schedule",
    "record_provenance=False so that timestamps do not enter the comparison",
    "maximization under prior reuse: outputs may differ only where the two runs' inside arrays agree to 1e-12 "
    "(argmax tie broken by an ulp); counted as discards",
]


def budget(tier):
    if tier == "quick":
        return dict(examples=60, shards=4)
    return dict(examples=500, shards=16)


METHODS = ["variational_gamma", "inside_outside", "maximization"]


def _digest_ts(ts):
    # (a .trees file carries a fresh UUID per dump, so hash the table columns instead)
    h = hashlib.sha256()

    def feed(o):
        if isinstance(o, dict):
            for k in sorted(o):
                h.update(str(k).encode())
                feed(o[k])
        elif isinstance(o, np.ndarray):
            h.update(str(o.dtype).encode())
            h.update(np.ascontiguousarray(o).tobytes())
        elif isinstance(o, bytes):
            h.update(o)
        else:
            h.update(repr(o).encode())

    feed(ts.dump_tables().asdict())
    return h.hexdigest()


def build_kwargs(cfg, ts=None):
    kw = dict(mutation_rate=cfg["mu"], method=cfg["method"], record_provenance=False)
    if cfg["method"] == "variational_gamma":
        kw.update(max_iterations=cfg["iters"], rescaling_intervals=cfg["rescale"], singletons_phased=cfg["phased"])
    else:
        kw.update(eps=cfg["eps"], probability_space=cfg["space"])
        if cfg.get("approx") and ts is not None:
            # approximate (interpolated) coalescent priors from a small lookup table: exercises the
            # on-disk/in-memory prior tables that default use only reaches above 10 000 samples
            kw["priors"] = tsdate.build_prior_grid(ts, population_size=cfg["ne"], approximate_priors=True,
                                                   approx_prior_size=cfg["approx"],
                                                   prior_distribution=cfg.get("dist", "lognorm"))
        else:
            kw["population_size"] = cfg["ne"]
        if cfg.get("num_threads") is not None:
            kw["num_threads"] = cfg["num_threads"]
    return kw


@st.composite
def cfg_strategy(draw, method=None):
    method = method or draw(st.sampled_from(METHODS))
    cfg = dict(method=method, mu=10.0 ** draw(st.integers(-4, 0)))
    if method == "variational_gamma":
        cfg.update(iters=draw(st.integers(1, 5)), rescale=draw(st.sampled_from([0, 0, 2, 5])),
                   phased=draw(st.booleans()))
    else:
        cfg.update(ne=10.0 ** draw(st.integers(0, 4)), eps=10.0 ** draw(st.integers(-8, -2)),
                   space=draw(st.sampled_from(["linear", "logarithmic"])),
                   approx=draw(st.sampled_from([None, None, 6, 12, 30])),
                   dist=draw(st.sampled_from(["lognorm", "gamma"])))
    return cfg


@st.composite
def interference(draw, cfg):
    """a different call on the same input, made between the two identical calls: any state that
    leaks from one call into the next (module-level memo, cache, mutated argument) shows up"""
    other = dict(cfg)
    if cfg["method"] == "variational_gamma":
        other.update(iters=cfg["iters"] % 5 + 1, phased=True, rescale=0)
    else:
        other.update(approx=draw(st.sampled_from([6, 12, 30, None])), ne=cfg["ne"] * draw(st.sampled_from([1.0, 3.0])),
                     space=draw(st.sampled_from(["linear", "logarithmic"])),
                     dist=draw(st.sampled_from(["lognorm", "gamma"])),
                     method=draw(st.sampled_from(["inside_outside", "maximization"])))
    return other


@st.composite
def repeat_case(draw, tier):
    cfg = draw(cfg_strategy())
    ts = draw(G.general_ts(tier=tier, contemporaneous=True, single_root=True, min_muts=2, max_n=8, max_trees=8))
    if cfg["method"] == "variational_gamma" and not cfg["phased"]:
        ts = G.add_individuals(ts, [2])
    threads = draw(st.sampled_from([[None, 1], [None, 1], [None, 1, 2], [None, 2, 4] if tier == "thorough" else [None, 2]]))
    return dict(kind="repeat", ts=ts, cfg=cfg, threads=threads, other=draw(interference(cfg)))


@st.composite
def reuse_case(draw, tier):
    ts = draw(G.general_ts(tier=tier, contemporaneous=True, single_root=True, min_muts=2, max_n=8, max_trees=6))
    prior = dict(ne=10.0 ** draw(st.integers(0, 4)), timepoints=draw(st.sampled_from([5, 10, 20])),
                 dist=draw(st.sampled_from(["lognorm", "gamma"])))
    calls = draw(st.lists(st.tuples(st.sampled_from(["inside_outside", "maximization"]),
                                    st.sampled_from(["linear", "logarithmic"]),
                                    st.integers(-8, -3)), min_size=2, max_size=5))
    return dict(kind="reuse", ts=ts, prior=prior, mu=10.0 ** draw(st.integers(-4, 0)),
                calls=[list(c) for c in calls])


def strategy(tier):
    return st.one_of(repeat_case(tier), reuse_case(tier))


# --------------------------------------------------------------------------


def outputs_equal(a, b):
    ta, tb = a.dump_tables(), b.dump_tables()
    return ta.equals(tb)


def check(case, ctx):
    if case["kind"] == "repeat":
        return check_repeat(case, ctx)
    return check_reuse(case, ctx)


def check_repeat(case, ctx):
    ts, cfg = case["ts"], dict(case["cfg"])
    ctx.label("repeat", "method=" + cfg["method"])
    status, first = call(lambda: tsdate.date(ts, **build_kwargs(cfg, ts)))
    if status != "ok":
        ctx.discard(("rejected:" if status == "rejected" else "internal:") + exc_key(first))
        return []
    if case.get("other"):
        call(lambda: tsdate.date(ts, **build_kwargs(case["other"], ts)))  # outcome irrelevant
        ctx.label("interfering_call")
        if cfg.get("approx"):
            ctx.label("approximate_priors")
    status, second = call(lambda: tsdate.date(ts, **build_kwargs(cfg, ts)))
    if status != "ok" or not outputs_equal(first, second):
        return [Violation(f"repeat:differs:{cfg['method']}", "the same call gave different tables the second time "
                          "(another call on the same input was made in between)")]
    if cfg["method"] == "variational_gamma":
        return []
    # thread counts
    span = ts.edges_right - ts.edges_left
    keys = len({(int(m), float(s)) for m, s in zip(np.bincount(
        [mu.edge for mu in ts.mutations() if mu.edge >= 0], minlength=ts.num_edges), span)})
    for nt in case["threads"]:
        c2 = dict(cfg, num_threads=nt)
        ctx.label(f"num_threads={nt}")
        status, res = call(lambda: tsdate.date(ts, **build_kwargs(c2, ts)))
        if status != "ok":
            return [Violation(f"threads:raises:{cfg['method']}:{type(res).__name__}",
                              f"num_threads={nt} raised {res!r} while the default run returned")]
        if not outputs_equal(first, res):
            return [Violation(f"threads:differs:{cfg['method']}",
                              f"num_threads={nt} gives different tables from the default run")]
        if nt is not None and nt >= 2 and keys >= 2:
            ctx.mark_nontrivial()
    return []


def _prior(ts, p):
    return tsdate.build_prior_grid(ts, population_size=p["ne"], timepoints=p["timepoints"],
                                   prior_distribution=p["dist"])


def check_reuse(case, ctx):
    ts, p = case["ts"], case["prior"]
    ctx.label("reuse")
    status, shared = call(_prior, ts, p)
    if status != "ok":
        ctx.discard(("rejected:" if status == "rejected" else "internal:") + exc_key(shared))
        return []
    seen_log = False
    nontrivial = False
    for method, space, epsk in case["calls"]:
        kw = dict(mutation_rate=case["mu"], eps=10.0 ** epsk, probability_space=space, record_provenance=False,
                  return_fit=True, return_likelihood=True)
        fn = getattr(tsdate, method)
        s1, r1 = call(fn, ts, priors=shared, **kw)
        s2, r2 = call(fn, ts, priors=_prior(ts, p), **kw)
        if s1 != s2:
            return [Violation(f"reuse:outcome_differs:{method}", f"reused prior: {s1} ({r1!r}); fresh prior: {s2}")]
        if s1 != "ok":
            ctx.discard(("rejected:" if s1 == "rejected" else "internal:") + exc_key(r1))
            return []
        if space == "linear" and seen_log:
            nontrivial = True
        if space == "logarithmic":
            seen_log = True
        (t1, f1, l1), (t2, f2, l2) = r1, r2
        in1, in2 = np.asarray(f1.inside.grid_data, dtype=float), np.asarray(f2.inside.grid_data, dtype=float)
        if space == "logarithmic":
            in1, in2 = np.exp(in1), np.exp(in2)
        if max_rel_err(in1, in2) > 1e-9:
            return [Violation(f"reuse:inside_differs:{method}", f"inside arrays differ by {max_rel_err(in1, in2):.3g} "
                              f"between reused and fresh prior ({space})")]
        lik1, lik2 = (np.exp(l1), np.exp(l2)) if space == "logarithmic" else (l1, l2)
        if max_rel_err([lik1], [lik2]) > 1e-9:
            return [Violation(f"reuse:likelihood_differs:{method}", f"marginal likelihood {l1!r} vs {l2!r}")]
        err = max_rel_err(t1.nodes_time, t2.nodes_time)
        if err > 1e-9:
            if method == "maximization" and max_rel_err(in1, in2) < 1e-12:
                ctx.discard("maximization argmax tie under prior reuse")
            else:
                return [Violation(f"reuse:times_differ:{method}", f"node times differ by {err:.3g} ({space})")]
        if method == "inside_outside":
            m1, v1 = node_metadata_mn_vr(t1)
            m2, v2 = node_metadata_mn_vr(t2)
            if max_rel_err(m1, m2) > 1e-9 or max_rel_err(v1, v2) > 1e-8:
                return [Violation("reuse:posteriors_differ", "mn/vr differ between reused and fresh prior")]
    # the user's prior object after the calls
    fresh = _prior(ts, p)
    shared.force_probability_space("linear")
    a, b = np.asarray(shared.grid_data, dtype=float), np.asarray(fresh.grid_data, dtype=float)
    if a.shape != b.shape or max_rel_err(a, b) > 1e-12 or np.any((a == 0) != (b == 0)):
        return [Violation("reuse:prior_corrupted", "the reused prior object no longer equals a freshly built one")]
    if not np.array_equal(np.asarray(shared.timepoints), np.asarray(fresh.timepoints)):
        return [Violation("reuse:timepoints_changed", "timepoints of the reused prior changed")]
    if nontrivial:
        ctx.mark_nontrivial()
        ctx.label("reuse_lin_after_log")
    return []


def describe(case):
    d = dict(kind=case["kind"], ts=G.ts_summary(case["ts"]))
    if case["kind"] == "repeat":
        d.update(cfg=case["cfg"], threads=case["threads"])
    else:
        d.update(prior=case["prior"], calls=case["calls"])
    return d


# --------------------------------------------------------------------------
# fresh processes
# --------------------------------------------------------------------------


def extra(ctx, tier, shard):
    if shard != 0:
        return
    import hypothesis
    from hypothesis import HealthCheck, Phase, given, settings

    nbatch = 20 if tier == "quick" else 120
    cases = []

    @hypothesis.seed(shard_seed(ctx.seed, 9009))
    @settings(max_examples=nbatch, database=None, deadline=None, phases=[Phase.generate],
              suppress_health_check=list(HealthCheck))
    @given(repeat_case(tier))
    def collect(c):
        cases.append(c)

    collect()
    # twins: for every discrete-method call a second call on the SAME input that differs only in
    # how the prior is parameterised (lookup-table size / distribution). The processes run the batch
    # in different orders, so a twin runs before its sibling in one process and after it in another:
    # state leaking between calls that agree on (input, sample count) but not on these options
    # gives different digests.
    twins = []
    for c in cases:
        cfg = c["cfg"]
        if cfg["method"] == "variational_gamma":
            continue
        if not cfg.get("approx"):
            cfg["approx"] = 12
        twins.append(dict(c, cfg=dict(cfg, approx={6: 30, 12: 6, 30: 12}[cfg["approx"]])))
    cases = cases + twins
    d = tempfile.mkdtemp(prefix="c09p", dir=os.path.join(ROOT, ".cache"))
    try:
        local = {}
        for i, c in enumerate(cases):
            c["ts"].dump(os.path.join(d, f"{i}.trees"))
            with open(os.path.join(d, f"{i}.json"), "w") as f:
                json.dump(c["cfg"], f)
            status, res = call(lambda: tsdate.date(c["ts"], **build_kwargs(c["cfg"], c["ts"])))
            local[str(i)] = _digest_ts(res) if status == "ok" else f"{status}:{type(res).__name__}"
        hashseeds = ["0", "1", str(shard_seed(ctx.seed, 77) % 4294967295)]
        if tier == "thorough":
            hashseeds.append("random")
        procs = []
        for k, hs in enumerate(hashseeds):
            env = dict(os.environ, PYTHONHASHSEED=hs)
            env.pop("LD_PRELOAD", None)
            # each process runs the batch in a different order (as given, reversed, rotated ...): a result
            # that depends on which calls were made before it in the same process differs between them
            procs.append((hs, subprocess.Popen([sys.executable, "-m", "vt.props.c09_worker", d, str(len(cases)), str(k)],
                                               env=env, cwd=ROOT, stdout=subprocess.PIPE, stderr=subprocess.PIPE, text=True)))
        results = {}
        for hs, pr in procs:
            out, err = pr.communicate(timeout=3600)
            line = [l for l in out.splitlines() if l.startswith("DIGESTS ")]
            if pr.returncode != 0 or not line:
                raise RuntimeError(f"worker PYTHONHASHSEED={hs} failed: {err[-800:]}")
            results[hs] = json.loads(line[0][8:])
        for i, c in enumerate(cases):
            ctx.evaluations += 1
            ctx.label("procs", "procs:method=" + c["cfg"]["method"])
            vals = {hs: results[hs].get(str(i)) for hs in results}
            vals["in-process"] = local[str(i)]
            if len(set(vals.values())) != 1:
                ctx.violation(Violation(f"procs:differs:{c['cfg']['method']}",
                                        f"output digests differ between processes: {vals}"),
                              case=dict(c, kind="repeat"))
            elif not local[str(i)].startswith(("rejected", "internal")):
                ctx.add_nontrivial(("procs", local[str(i)], json.dumps(c["cfg"], sort_keys=True)))
        ctx.extra["processes"] = len(hashseeds)
        ctx.extra["process_batch"] = len(cases)
        ctx.sample(dict(kind="procs", hashseeds=hashseeds, batch=len(cases),
                        first=dict(cfg=cases[0]["cfg"], ts=G.ts_summary(cases[0]["ts"])) if cases else None))
    finally:
        shutil.rmtree(d, ignore_errors=True)
