"""C32 — time metadata writing follows the set_metadata policy.

Oracle (R): the outcome for the node and the mutation table is *predicted from the statement*:

    produces(table)  = the method has mn/vr for that table at all
                       (nodes: variational_gamma, inside_outside; mutations: variational_gamma;
                        maximization has no variances => nothing is ever written)
    can_encode(table)= tskit's own schema.validate_and_encode_row({**row, "mn": x, "vr": y})
                       accepts every existing row (independent of tsdate)
    empty(table)     = no schema and a zero-length metadata column

    set_metadata False, or not produces      -> UNTOUCHED (bytes and schema identical)
    can_encode                               -> WRITTEN, schema kept, every row decodes to a dict with
                                                numeric mn and vr and all previous other keys equal
    empty (None or True)                     -> WRITTEN with the default schema, rows = {mn, vr}
    otherwise, None                          -> UNTOUCHED and a WARNING naming the table is logged
    otherwise, True                          -> default schema installed, rows = exactly {mn, vr}

Mutation rows are matched per site as multisets (tskit's sort permutes rows of a site), node rows
by id. The warning is captured with a handler on logger "tsdate.core".
"""

import logging
from collections import Counter

import numpy as np
import tskit
from hypothesis import strategies as st

import tsdate
from tsdate import schemas

from vt.common import call, exc_key
from vt.gen import meta_b as MB
from vt.gen import ts as G
from vt.runner import Violation

ID = "C32"
LEVEL = "exploration"
RULE = (
    "cases = (small datable tree sequence, node metadata family, mutation metadata family out of 14 "
    "schema/codec/content families, set_metadata in {None, True, False}, method); non-trivial = the "
    "two tables are predicted to end in different states or a table with existing other fields is "
    "written/cleared; all 14 x 3 x {produces, not} outcome classes are labelled; distinct by SHA-1 of the case"
)
ASSUMPTIONS = [
    "'can encode' is decided by tskit's validate_and_encode_row on {**row, mn, vr} with float values",
    "maximization computes no variances, the discrete methods no mutation moments: nothing to write there",
    "the values of mn/vr are C04's subject; here only presence (finite-or-NaN numbers) in every row",
    "inputs are contemporaneous, single-root, unary-free so that all three methods accept them",
]

_tlog = logging.getLogger("tsdate")
_tlog.addHandler(logging.NullHandler())
_tlog.propagate = False


class _Capture(logging.Handler):
    def __init__(self):
        super().__init__(level=logging.DEBUG)
        self.records = []

    def emit(self, record):
        self.records.append((record.levelno, record.name, record.getMessage()))


def budget(tier):
    if tier == "quick":
        return dict(examples=150, shards=4)
    return dict(examples=900, shards=16)


@st.composite
def strategy_(draw, tier):
    ts = draw(G.general_ts(tier=tier, contemporaneous=True, single_root=True, min_muts=1, max_n=8, max_trees=6))
    return dict(
        ts=ts,
        node_family=draw(st.sampled_from(MB.ALL_FAMILIES)),
        mut_family=draw(st.sampled_from(MB.ALL_FAMILIES)),
        set_metadata=draw(st.sampled_from([None, None, True, True, False])),
        method=draw(st.sampled_from(["variational_gamma", "variational_gamma", "inside_outside", "maximization"])),
        tag=draw(st.integers(0, 3)),
        named=draw(st.booleans()),
    )


def strategy(tier):
    return strategy_(tier)


def predict(table, set_metadata, produces):
    if set_metadata is False or not produces:
        return "untouched"
    if MB.can_encode(table):
        return "written_kept"
    if table.metadata_schema.schema is None and len(table.metadata) == 0:
        return "written_default"
    if set_metadata is None:
        return "untouched_warn"
    return "cleared_default"


def rows_decoded(table):
    sch = table.metadata_schema
    return [sch.decode_row(r) for r in MB.raw_rows(table)]


def _is_number(x):
    return isinstance(x, (int, float)) and not isinstance(x, bool)


def judge(name, tin, tout, outcome, default_schema, groups_in, groups_out, warned, out):
    """groups_*: list (aligned between in and out) of lists of row indices that may be permuted
    among themselves (nodes: singletons; mutations: rows of one site with same node/derived state)."""
    if tin.num_rows != tout.num_rows:
        out.append(Violation(f"{name}:row_count", f"{tin.num_rows} -> {tout.num_rows} rows"))
        return
    raw_in, raw_out = MB.raw_rows(tin), MB.raw_rows(tout)
    if outcome in ("untouched", "untouched_warn"):
        if tin.metadata_schema != tout.metadata_schema:
            out.append(Violation(f"{name}:{outcome}:schema_changed", f"{name} schema changed but the policy says untouched"))
            return
        for gi, go in zip(groups_in, groups_out):
            if Counter(raw_in[i] for i in gi) != Counter(raw_out[i] for i in go):
                out.append(Violation(f"{name}:{outcome}:bytes_changed",
                                     f"{name} metadata bytes changed but the policy says untouched "
                                     f"(rows {gi[:3]}: {[raw_in[i] for i in gi[:2]]} -> {[raw_out[i] for i in go[:2]]})"))
                return
        if outcome == "untouched_warn" and not warned:
            out.append(Violation(f"{name}:no_warning", f"{name} left untouched under set_metadata=None "
                                 "but no WARNING was logged by tsdate.core"))
        return
    # written
    if outcome == "written_kept":
        if tin.metadata_schema != tout.metadata_schema:
            out.append(Violation(f"{name}:written_kept:schema_changed", f"{name}: schema can encode mn/vr but was replaced"))
            return
        dec_in = rows_decoded(tin)
    else:
        if tout.metadata_schema != default_schema:
            out.append(Violation(f"{name}:{outcome}:not_default_schema",
                                 f"{name}: expected the default schema, got {str(tout.metadata_schema)[:80]}"))
            return
        dec_in = [{} for _ in range(tin.num_rows)]
    try:
        dec_out = rows_decoded(tout)
    except Exception as e:
        out.append(Violation(f"{name}:{outcome}:output_undecodable", f"{name}: output metadata does not decode: {e!r}"))
        return
    for i, md in enumerate(dec_out):
        if not (isinstance(md, dict) and "mn" in md and "vr" in md and _is_number(md["mn"]) and _is_number(md["vr"])):
            out.append(Violation(f"{name}:{outcome}:row_without_mn_vr", f"{name} row {i} decodes to {md!r}: mn/vr missing or not numbers"))
            return
    strip = lambda md: MB.canon({k: v for k, v in md.items() if k not in ("mn", "vr")})  # noqa: E731
    for gi, go in zip(groups_in, groups_out):
        a = Counter(strip(dec_in[i]) for i in gi)
        b = Counter(strip(dec_out[i]) for i in go)
        if a != b:
            kind = "other_fields_lost" if outcome == "written_kept" else "stale_fields_kept"
            out.append(Violation(f"{name}:{outcome}:{kind}",
                                 f"{name} rows {gi[:3]}: other fields {[dec_in[i] for i in gi[:2]]} -> {[dec_out[i] for i in go[:2]]}"))
            return


def mutation_groups(tin, tout):
    """align mutation rows between input and output: groups keyed by (site, node, derived_state)"""
    def grp(t):
        ds = tskit.unpack_bytes(t.derived_state, t.derived_state_offset)
        g = {}
        for i in range(t.num_rows):
            g.setdefault((int(t.site[i]), int(t.node[i]), ds[i]), []).append(i)
        return g
    a, b = grp(tin), grp(tout)
    if set(a) != set(b) or any(len(a[k]) != len(b[k]) for k in a):
        return None
    keys = sorted(a)
    return [a[k] for k in keys], [b[k] for k in keys]


def check(case, ctx):
    method = case["method"]
    sm = case["set_metadata"]
    ts = MB.decorate_b(case["ts"], case["node_family"], case["mut_family"], populations=1, ind_pattern=(),
                       extra=False, tag=case["tag"])
    tin = ts.dump_tables()
    produces = dict(nodes=method in ("variational_gamma", "inside_outside"), mutations=method == "variational_gamma")
    pred = dict(nodes=predict(tin.nodes, sm, produces["nodes"]), mutations=predict(tin.mutations, sm, produces["mutations"]))
    ctx.label("method=" + method, f"set_metadata={sm}")
    ctx.label(f"nodes:{case['node_family']}:{sm}->{pred['nodes']}" if produces["nodes"] else "nodes:not_produced")
    ctx.label(f"mutations:{case['mut_family']}:{sm}->{pred['mutations']}" if produces["mutations"] else "mutations:not_produced")
    ctx.label("outcome:nodes:" + pred["nodes"], "outcome:mutations:" + pred["mutations"])

    kw = dict(mutation_rate=0.01, set_metadata=sm)
    if method == "variational_gamma":
        kw.update(rescaling_intervals=0, max_iterations=2)
    else:
        kw.update(population_size=50.0)
    fn = getattr(tsdate, method) if case["named"] else tsdate.date
    if not case["named"]:
        kw.update(method=method)
    cap = _Capture()
    core_logger = logging.getLogger("tsdate.core")
    old_level = core_logger.level
    core_logger.addHandler(cap)
    core_logger.setLevel(logging.INFO)
    try:
        status, res = call(fn, ts, **kw)
    finally:
        core_logger.removeHandler(cap)
        core_logger.setLevel(old_level)
    if status == "rejected":
        ctx.discard("rejected:" + str(res)[:40])
        return []
    if status == "internal":
        ctx.discard("internal:" + exc_key(res))
        return []
    tout = res.dump_tables()
    out = []
    warnings = [m for lvl, name, m in cap.records if lvl >= logging.WARNING]

    def warned_for(table_name):
        return any(table_name in m for m in warnings)

    different = pred["nodes"] != pred["mutations"]
    touches_existing = any(
        pred[k] in ("written_kept", "cleared_default") and len(getattr(tin, k).metadata) > 0 for k in pred)
    if different or touches_existing:
        ctx.mark_nontrivial()

    n = tin.nodes.num_rows
    judge("nodes", tin.nodes, tout.nodes, pred["nodes"], schemas.default_node_schema,
          [[i] for i in range(n)], [[i] for i in range(n)],
          warned_for("NodeTable"), out)
    mg = mutation_groups(tin.mutations, tout.mutations)
    if mg is None:
        # rows lost / reassigned: C02's subject; nothing can be aligned here
        ctx.discard("mutation rows not alignable (C02)")
    else:
        judge("mutations", tin.mutations, tout.mutations, pred["mutations"], schemas.default_mutation_schema,
              mg[0], mg[1], warned_for("MutationTable"), out)
    return out


def describe(case):
    return dict(method=case["method"], set_metadata=case["set_metadata"], node_md=case["node_family"],
                mut_md=case["mut_family"], named=case["named"], ts=G.ts_summary(case["ts"]))
