"""C15 -- node span tables behind the mixture prior are exact.

Oracle (R): direct iteration over ts.trees() (vt.oracle.coalescent_e.brute_force_spans):
T = number of sample nodes that have a parent in the local tree, k = samples below the node,
span[u][(T, k)] += tree span; and the span-weighted mixture of the exact conditional-coalescent
moments (C14 oracle, rationals) compared with MixturePrior.prior_params through the documented
lognormal / gamma moment matching.
"""

import mpmath
import numpy as np
import tskit
from hypothesis import strategies as st

from tsdate import prior as tsprior

from vt.common import call, exc_key, node_is_sample
from vt.gen import ts as G
from vt.oracle import coalescent_e as O
from vt.runner import Violation

ID = "C15"
LEVEL = "exploration"
RULE = (
    "cases = simplified, unary-free, contemporaneous, one-root-per-tree tree sequences (msprime or built, with "
    "polytomies), 0..3 drawn 'missing data' operations (a sample isolated over an interval, then simplify), or "
    "a 'mirror' construction (same trees twice with fresh internal nodes, once with an extra sample: identical "
    "(k, span) tables under different T), "
    "optional non-dyadic coordinate scaling, prior distribution lognorm|gamma. non-trivial = some non-sample node "
    "has >= 2 distinct (T, k) pairs; distinct by SHA-1 of the tables"
)
ASSUMPTIONS = [
    "'samples in the local tree' = sample nodes that have a parent there (isolated samples are missing data); "
    "validated on the unchanged tree before being asserted",
    "spans compared at 1e-12 * sequence_length (the code accumulates float differences of breakpoints); "
    "mixture moments at 1e-9 relative (calibration: worst 1.4e-15, see TOL comments)",
    "inputs SpansBySamples rejects with ValueError (multiple roots, unary nodes) are discarded, not judged",
    "tskit tree iteration, fractions, mpmath trusted",
]

# calibration (unchanged tree, quick tier): worst span error 7e-17 * L, worst mixture moment relative
# error 1.4e-15 (re-measured values are written to the evidence file by every run)
TOL_SPAN = 1e-12
TOL_MIX = 1e-9


def budget(tier):
    if tier == "quick":
        return dict(examples=200, shards=4)
    return dict(examples=2500, shards=16)


@st.composite
def strategy_(draw, tier):
    ts = draw(G.general_ts(tier=tier, contemporaneous=True, single_root=True, min_muts=0,
                           allow_polytomy=True, missing=False))
    n_missing = draw(st.sampled_from([0, 1, 1, 2, 3]))
    ops = [(draw(st.integers(0, 100)), draw(st.floats(0, 1)), draw(st.floats(0, 1))) for _ in range(n_missing)]
    scale = draw(st.sampled_from([1.0, 1.0, 1.0 / 3.0, 7.3, 1e-3]))
    distr = draw(st.sampled_from(["lognorm", "gamma"]))
    mode = draw(st.sampled_from(["plain", "plain", "plain", "mirror"]))
    return dict(ts=ts, ops=ops, scale=scale, distr=distr, mode=mode)


def strategy(tier):
    return strategy_(tier)


def mirror(ts):
    """[0, L): the trees of `ts` with one extra sample e hung, together with the local root, under a new
    root (T = n + 1 samples);  [L, 2L): the same trees again on the same samples but with FRESH internal
    nodes, e isolated (T = n).  A node and its copy then have identical (k, span) tables under different
    T: the input for which the mixture cache of get_mixture_prior_params must key on T."""
    L = ts.sequence_length
    tables = ts.dump_tables()
    tables.sequence_length = 2 * L
    tables.sites.clear()
    tables.mutations.clear()
    tables.edges.clear()
    is_s = node_is_sample(ts)
    e = tables.nodes.add_row(flags=tskit.NODE_IS_SAMPLE, time=0.0)
    r1 = tables.nodes.add_row(flags=0, time=float(ts.nodes_time.max()) + 1.0)
    copy = {}
    for u in range(ts.num_nodes):
        copy[u] = u if is_s[u] else tables.nodes.add_row(flags=0, time=float(ts.nodes_time[u]))
    for ed in ts.edges():
        tables.edges.add_row(ed.left, ed.right, ed.parent, ed.child)
        tables.edges.add_row(ed.left + L, ed.right + L, copy[ed.parent], copy[ed.child])
    tables.edges.add_row(0, L, r1, e)
    for tree in ts.trees():
        tables.edges.add_row(tree.interval.left, tree.interval.right, r1, tree.root)
    tables.sort()
    tables.edges.squash()
    tables.sort()
    return tables.tree_sequence()


def build_input(case):
    ts = case["ts"]
    applied = 0
    if case.get("mode") == "mirror":
        if all(t.num_roots == 1 and t.num_edges > 0 for t in ts.trees()):
            return mirror(ts), 1
    for idx, lo, hi in case["ops"]:
        if ts.num_samples <= 2:
            break
        ts2 = G.remove_leaf_edge(ts, idx, lo, hi)
        ts2 = ts2.simplify(keep_unary=False)
        if ts2.num_edges > 0 and ts2.num_samples == ts.num_samples:
            if not ts2.tables.edges.equals(ts.tables.edges):
                applied += 1
            ts = ts2
    if case["scale"] != 1.0:
        ts = G.scale_coords(ts, case["scale"])
    return ts, applied


def spans_as_dict(arrs):
    """get_spans(u) -> {(T, k): span}; duplicates (should not exist) are summed and flagged"""
    d = {}
    dup = False
    for T, arr in arrs.items():
        for k, s in zip(arr["descendant_tips"], arr["span"]):
            key = (int(T), int(k))
            if key in d:
                dup = True
            d[key] = d.get(key, 0.0) + float(s)
    return d, dup


def check(case, ctx):
    ts, applied = build_input(case)
    distr = case["distr"]
    out = []
    status, sbs = call(tsprior.SpansBySamples, ts)
    ref, total, per_tree_T = O.brute_force_spans(ts)
    has_missing = len(set(per_tree_T)) > 1 or any(T != ts.num_samples for T in per_tree_T)
    empty_tree = any(T == 0 for T in per_tree_T)
    poly = any(tree.num_children(u) > 2 for tree in ts.trees() for u in tree.nodes())
    ctx.label("mode=" + case.get("mode", "plain"), "missing" if has_missing else "complete",
              "polytomy" if poly else "binary",
              f"trees<={10 ** len(str(ts.num_trees))}", "distr=" + distr)
    if empty_tree:
        ctx.label("has_tree_without_edges")
    if status == "rejected":
        ctx.discard("rejected:" + str(sbs)[:40])
        return []
    if status != "ok":
        if empty_tree:
            # a region where every sample is isolated has no root at all: outside "a single root per tree"
            ctx.discard("internal_on_empty_tree:" + exc_key(sbs))
            return []
        return [Violation("spans_raised:" + exc_key(sbs), f"SpansBySamples raised {sbs!r} on a simplified, "
                          "unary-free, single-root input")]
    L = ts.sequence_length
    is_s = node_is_sample(ts)
    nonsample = [u for u in range(ts.num_nodes) if not is_s[u]]
    if sorted(int(u) for u in sbs.nodes_to_date) != nonsample:
        out.append(Violation("nodes_to_date", f"nodes_to_date {sorted(int(u) for u in sbs.nodes_to_date)[:10]} is not "
                             f"the non-sample set {nonsample[:10]}"))
    nontrivial = False
    worst_span = 0.0
    for u in nonsample:
        want = ref.get(u, {})
        if len(want) >= 2:
            nontrivial = True
        st_, arrs = call(sbs.get_spans, u)
        if st_ != "ok":
            out.append(Violation("get_spans_raised", f"get_spans({u}) raised {arrs!r}"))
            break
        got, dup = spans_as_dict(arrs)
        got = {k: v for k, v in got.items() if v != 0.0}
        if dup:
            out.append(Violation("spans:duplicate_key", f"node {u}: a (T, k) pair is listed twice"))
        if set(got) != set(want):
            out.append(Violation("spans:wrong_pairs", f"node {u}: (T,k) pairs {sorted(got)} but per-tree count gives "
                                 f"{sorted(want)}", node=u))
            break
        err = max(abs(got[k] - float(want[k])) for k in want) if want else 0.0
        worst_span = max(worst_span, err / L)
        if err > TOL_SPAN * L:
            k = max(want, key=lambda k: abs(got[k] - float(want[k])))
            out.append(Violation("spans:wrong_length", f"node {u} pair (T,k)={k}: span {got[k]!r} but the trees where "
                                 f"the node has that pair cover {float(want[k])!r}", node=u))
            break
        tot = float(total.get(u, 0))
        if abs(sum(got.values()) - tot) > TOL_SPAN * L * max(1, len(got)):
            out.append(Violation("spans:sum_not_total", f"node {u}: spans sum to {sum(got.values())!r}, node is "
                                 f"present over {tot!r}"))
            break
        if abs(float(sbs.node_spans[u]) - tot) > TOL_SPAN * L * max(1, ts.num_trees):
            out.append(Violation("spans:node_spans", f"node {u}: node_spans {sbs.node_spans[u]!r}, node is present "
                                 f"over {tot!r}"))
            break
    if nontrivial:
        ctx.mark_nontrivial()
        ctx.label("mixture_node")
    _note(ctx, "worst_span_err_over_L", worst_span)
    if out:
        return out

    # mixture prior parameters
    status, mp_ = call(tsprior.MixturePrior, ts, prior_distribution=distr)
    if status == "rejected":
        ctx.discard("mixtureprior_rejected:" + str(mp_)[:40])
        return out
    if status != "ok":
        return [Violation("mixtureprior_raised:" + exc_key(mp_), f"MixturePrior raised {mp_!r}")]
    pp = np.asarray(mp_.prior_params, dtype=float)
    if pp.shape[0] < ts.num_nodes or pp.shape[1] != 2:
        return [Violation("prior_params:shape", f"prior_params has shape {pp.shape}")]
    worst = 0.0
    with mpmath.workdps(30):
        for u in nonsample:
            m, v = O.mixture_moments(ref[u])
            m, v = O.frac_to_mpf(m), O.frac_to_mpf(v)
            a, b = float(pp[u, 0]), float(pp[u, 1])
            if not (np.isfinite(a) and np.isfinite(b)):
                out.append(Violation("prior_params:nonfinite", f"node {u}: (alpha, beta) = ({a!r}, {b!r})"))
                break
            if distr == "lognorm":
                gm, gv = O.lognorm_moments_from_params(a, b)
            else:
                gm, gv = O.gamma_moments_from_params(a, b)
            em = float(abs(gm - m) / m)
            ev = float(abs(gv - v) / v)
            worst = max(worst, em, ev)
            if em > TOL_MIX or ev > TOL_MIX:
                kind = "mixture" if len(ref[u]) > 1 else "single"
                out.append(Violation(f"prior_params:{kind}:{distr}", f"node {u} with spans "
                                     f"{ {k: float(s) for k, s in ref[u].items()} }: (alpha, beta)=({a!r}, {b!r}) has "
                                     f"mean/var {mpmath.nstr(gm, 12)}/{mpmath.nstr(gv, 12)}, span-weighted coalescent "
                                     f"mixture has {mpmath.nstr(m, 12)}/{mpmath.nstr(v, 12)}", node=u))
                break
        # sample rows carry no prior
        for u in np.flatnonzero(is_s)[:3]:
            if not np.all(np.isnan(pp[u])):
                out.append(Violation("prior_params:sample_row", f"sample node {u} has prior parameters {pp[u]!r}"))
                break
    _note(ctx, "worst_mixture_moment_rel_err", worst)
    return out


_WORST = {}


def _note(ctx, name, value):
    if value > _WORST.get(name, -1.0):
        _WORST[name] = value
        ctx.extra[name] = [value]


def finish(ctx, tier):
    for name in ("worst_span_err_over_L", "worst_mixture_moment_rel_err"):
        v = ctx.extra.get(name)
        if isinstance(v, list) and v:
            ctx.extra[name] = max(v)


def describe(case):
    ts, applied = build_input(case)
    return dict(ts=G.ts_summary(ts), missing_ops=applied, scale=case["scale"], distr=case["distr"])
