"""C11 — discrete-time dating is invariant to node numbering and input time order.

Oracle (M): the same contemporaneous single-root input is dated twice by the real code, once
as generated and once after (a) permuting the ids of the non-sample nodes, (b) replacing the
input times of the non-sample nodes by other valid times (which changes tskit's edge order
and every traversal order tsdate derives from input times), or both. Priors are rebuilt for
the transformed input from the same specification. Outputs are compared through the
permutation:

  inside_outside: returned node times, mn/vr metadata, posterior rows (fit.node_posteriors())
                  and the marginal likelihood, to 1e-9 relative;
  maximization:   assigned grid indices equal; otherwise, at the first differing node in a
                  parents-first walk (all its parents agree) the maximization objective is
                  recomputed from either run's fit.inside at both candidates with
                  scipy.stats.poisson: within 1e-9 -> `numerical tie` discard, else violation;
                  then returned node times and marginal likelihood to 1e-9.

Calibration (unchanged tree, 5 quick runs = 5 000 pairs, label histogram `maxerr*` in the
evidence): 78 % of the pairs are bit-identical, the worst relative difference over all compared
quantities falls in the (1e-13, 1e-12] bucket (8 pairs); no maximization tie was met. The 1e-9
tolerance leaves a x1000 margin.
"""

import numpy as np
from hypothesis import strategies as st

from vt.common import exc_key, node_metadata_mn_vr
from vt.gen import discrete_d2 as D
from vt.gen import ts as G
from vt.runner import Violation

ID = "C11"
LEVEL = "exploration"
RULE = (
    "cases = (contemporaneous single-root tree sequence incl. polytomies / several trees, "
    "transformation in {renumber, retime, both}, method in {inside_outside, maximization}, prior "
    "spec rebuilt per input, theta, eps, probability space); non-trivial = the tree sequence has "
    ">= 2 trees and the permutation moves >= 2 non-sample nodes or the re-timing changes the "
    "relative input-time order of >= 2 non-sample nodes; distinct by SHA-1 of the case"
)
ASSUMPTIONS = [
    "tskit's table sort / numpy / scipy.stats.poisson trusted",
    "agreement demanded to 1e-9 relative (absolute floor 1e-290 for posterior entries)",
    "maximization: objective values within 1e-9 are numerical ties (case discarded, counted)",
    "a rejection or internal error raised identically for both inputs is outside this property "
    "(C35 / C12), counted as a discard",
]
TOL = 1e-9
FLOOR = 1e-290


def budget(tier):
    if tier == "quick":
        return dict(examples=250, shards=4)
    return dict(examples=2500, shards=16)


@st.composite
def strategy_(draw, tier):
    ts = draw(G.general_ts(tier=tier, contemporaneous=True, single_root=True, min_muts=1))
    transform = draw(st.sampled_from(["renumber", "retime", "both", "both"]))
    case = dict(
        ts=ts, transform=transform,
        method=draw(st.sampled_from(["inside_outside", "maximization"])),
        spec=draw(D.prior_spec()),
        theta=draw(D.rate_spec(-2, 1)),
        eps=draw(st.sampled_from([None, None, 1e-6, 1e-2, 1.0])),
        space=draw(st.sampled_from([D.LOG, D.LOG, D.LIN])),
        swaps=[], incs=[],
    )
    if transform in ("renumber", "both"):
        case["swaps"] = draw(st.lists(st.integers(0, 1000), min_size=1, max_size=12))
    if transform in ("retime", "both"):
        style = draw(st.sampled_from(["equal", "random", "random", "huge"]))
        if style == "equal":   # input time = topological height: many unrelated nodes share a time
            case["incs"] = [1.0]
        elif style == "huge":
            case["incs"] = [draw(st.sampled_from([1e-3, 1e6]))] + draw(
                st.lists(st.sampled_from([1e-3, 1.0, 1e6]), min_size=1, max_size=8))
        else:
            case["incs"] = draw(st.lists(st.sampled_from([0.01, 0.3, 1.0, 1.0, 7.0, 100.0]),
                                         min_size=2, max_size=12))
    return case


def strategy(tier):
    return strategy_(tier)


def transform(case):
    ts = case["ts"]
    mapping = np.arange(ts.num_nodes, dtype=np.int32)
    ts2 = ts
    if case["incs"]:
        ts2 = G.retime_nonsamples(ts2, case["incs"])
    if case["swaps"]:
        ts2, mapping = G.renumber_nonsamples(ts2, case["swaps"])
    return ts2, mapping


def close(a, b, floor=0.0):
    a = np.asarray(a, dtype=float)
    b = np.asarray(b, dtype=float)
    with np.errstate(invalid="ignore"):
        ok = np.abs(a - b) <= TOL * np.maximum(np.abs(a), np.abs(b)) + floor
    ok |= np.isnan(a) & np.isnan(b)
    ok |= a == b  # equal infinities
    return ok


def worst(a, b):
    a = np.asarray(a, dtype=float)
    b = np.asarray(b, dtype=float)
    with np.errstate(invalid="ignore", divide="ignore"):
        r = np.abs(a - b) / np.maximum(np.abs(a), np.abs(b))
    r = r[np.isfinite(r)]
    return float(r.max()) if r.size else 0.0


def bucket(x):
    if x == 0:
        return "0"
    return f"<=1e{max(int(np.ceil(np.log10(x))), -16)}"


def check(case, ctx):
    ts, method, spec, space = case["ts"], case["method"], case["spec"], case["space"]
    ctx.label("method=" + method, "transform=" + case["transform"], "space=" + space, "prior=" + spec["kind"])
    if ts.num_mutations == 0:
        ctx.discard("no_mutations")
        return []
    ts2, mapping = transform(case)
    n = ts.num_nodes
    nons = np.flatnonzero(~D.node_is_sample(ts))
    moved = int(np.sum(mapping[nons] != nons))
    # relative input-time order of non-sample nodes (u in ts  <->  mapping[u] in ts2)
    t1, t2 = ts.nodes_time[nons], ts2.nodes_time[mapping[nons]]
    s1 = np.sign(t1[:, None] - t1[None, :])
    s2 = np.sign(t2[:, None] - t2[None, :])
    order_changed = int(np.sum(np.any(s1 != s2, axis=1)))
    # did tskit's edge order change (edges as (parent, child, left) in original ids)?
    inv = np.empty(n, dtype=np.int64)
    inv[mapping] = np.arange(n)
    e1 = list(zip(ts.edges_parent.tolist(), ts.edges_child.tolist(), ts.edges_left.tolist()))
    e2 = list(zip(inv[ts2.edges_parent].tolist(), inv[ts2.edges_child].tolist(), ts2.edges_left.tolist()))
    if sorted(e1) != sorted(e2):
        raise AssertionError("transformation changed the edge set")  # harness bug
    if e1 != e2:
        ctx.label("edge_order_changed")
    if moved >= 2:
        ctx.label("moved>=2")
    if order_changed >= 2:
        ctx.label("time_order_changed>=2")
    if ts.num_trees >= 2:
        ctx.label("trees>=2")
    if ts.num_trees >= 2 and (moved >= 2 or order_changed >= 2):
        ctx.mark_nontrivial()
        ctx.label("nontrivial")

    sa, ra = D.run_discrete(ts, method, spec, case["theta"], case["eps"], space)
    sb, rb = D.run_discrete(ts2, method, spec, case["theta"], case["eps"], space)
    if sa != "ok" or sb != "ok":
        if sa == sb:
            # refused / failed for both inputs (messages may name different node ids): no dates to
            # compare; acceptance is the subject of C28/C35
            ctx.discard(f"both_{sa}[{space[:3]}]:" + exc_key(ra))
            return []
        if space == D.LIN and "internal" in (sa, sb):
            # linear-space underflow may hit one traversal order and not the other: C12's domain
            ctx.discard("linear_internal_one_side:" + exc_key(ra if sa != "ok" else rb))
            return []
        return [Violation(f"accepted_only_one_way:{sa}/{sb}",
                          f"original input: {sa} {ra if sa != 'ok' else ''!r}; transformed input: {sb} "
                          f"{rb if sb != 'ok' else ''!r}")]
    (d1, f1, l1), (d2, f2, l2) = ra, rb
    out = []
    errs = []
    if not np.array_equal(np.asarray(f1.lik.timepoints), np.asarray(f2.lik.timepoints)):
        if not np.all(close(f1.lik.timepoints, f2.lik.timepoints)):
            return [Violation("timepoints_differ", "prior grids of the two inputs differ")]
    nan_out = bool(np.any(np.isnan(d1.nodes_time)) or np.any(np.isnan(d2.nodes_time)))

    if method == "maximization":
        tp = np.asarray(f1.lik.timepoints, dtype=float)
        i1 = D.grid_index(tp, f1.posterior_mean)
        i2 = D.grid_index(np.asarray(f2.lik.timepoints, dtype=float), f2.posterior_mean)[mapping]
        if np.any(i1[nons] < 0) or np.any(i2[nons] < 0):
            ctx.discard("not_grid_points (C13)")
            return []
        if not np.array_equal(i1[nons], i2[nons]):
            eps = 1e-8 if case["eps"] is None else case["eps"]
            mu = D.mutation_rate(ts, spec, case["theta"])
            dag = D.Dag(ts)
            for u in dag.parents_first:
                if dag.is_sample[u] or i1[u] == i2[u]:
                    continue
                a, b = int(i1[u]), int(i2[u])
                o1, terms, norms = D.log_objective(f1, dag, u, i1, mu, eps)
                # the same node in the second run: its inside row, mapped
                dag2 = D.Dag(ts2)
                o2, _, _ = D.log_objective(f2, dag2, int(mapping[u]), i2[inv], mu, eps)
                hi = max(a, b)
                if hi >= len(o1) or hi >= len(o2):
                    return [Violation("maximization:beyond_youngest_parent",
                                      f"node {u}: indices {a} / {b}, parents allow <= {len(o1) - 1}")]
                tie = D.is_tie(o1[a], o1[b]) or D.is_tie(o2[a], o2[b])
                if tie:
                    ctx.discard("numerical tie")
                    return []
                if space == D.LIN and (D.linear_margin(o1, terms, norms, [a, b]) < -650
                                       or np.any(np.isnan(o1)) or np.any(np.isnan(o2))):
                    ctx.discard("linear_underflow_at_candidate")
                    return []
                return [Violation("maximization:different_timepoint",
                                  f"node {u} (-> {int(mapping[u])}): index {a} for the original input, {b} for "
                                  f"the transformed one; objective (log) at these: run1 {o1[a]!r} / {o1[b]!r}, "
                                  f"run2 {o2[a]!r} / {o2[b]!r}; transform={case['transform']} space={space}",
                                  node=int(u))]
        errs.append(worst(d1.nodes_time, d2.nodes_time[mapping]))
        if not np.all(close(d1.nodes_time, d2.nodes_time[mapping])):
            out.append(Violation("maximization:node_times",
                                 f"returned node times differ by {worst(d1.nodes_time, d2.nodes_time[mapping]):.3g}"))
    else:
        p1 = f1.node_posteriors()
        p2 = f2.node_posteriors()
        g = len(f1.lik.timepoints)
        p1 = np.asarray(p1.view(np.float64)).reshape(n, g)
        p2 = np.asarray(p2.view(np.float64)).reshape(n, g)[mapping]
        mn1, vr1 = node_metadata_mn_vr(d1)
        mn2, vr2 = node_metadata_mn_vr(d2)
        if nan_out or np.any(np.isnan(p1[nons])) or np.any(np.isnan(p2[nons])):
            if space == D.LIN:
                ctx.discard("linear_nan_output")
                return []
        for name, a, b, floor in (
            ("node_times", d1.nodes_time, d2.nodes_time[mapping], 0.0),
            ("mn", mn1[nons], mn2[mapping][nons], 0.0),
            ("vr", vr1[nons], vr2[mapping][nons], 0.0),
            ("posterior", p1[nons], p2[nons], FLOOR),
        ):
            ok = close(a, b, floor)
            big = np.maximum(np.abs(a), np.abs(b)) > 1e-250
            errs.append(worst(np.asarray(a)[big], np.asarray(b)[big]))
            if not np.all(ok):
                w = np.unravel_index(int(np.argmin(ok)), np.shape(ok))
                out.append(Violation(f"inside_outside:{name}",
                                     f"{name} differ (worst rel {worst(a, b):.3g}); first at {w}: "
                                     f"{np.asarray(a)[w]!r} vs {np.asarray(b)[w]!r}; "
                                     f"transform={case['transform']} space={space}"))
    # marginal likelihood
    la, lb = float(l1), float(l2)
    if space == D.LIN and (la == 0 or lb == 0 or not np.isfinite(la) or not np.isfinite(lb)):
        ctx.label("linear_likelihood_underflow")
    else:
        errs.append(worst(la, lb))
        if not close(la, lb):
            out.append(Violation(f"{method}:likelihood", f"marginal likelihood {la!r} vs {lb!r} (space={space})"))
    if not out:
        ctx.label("maxerr" + bucket(max(errs) if errs else 0.0))
    return out


def describe(case):
    return dict(ts=G.ts_summary(case["ts"]), transform=case["transform"], method=case["method"],
                spec=case["spec"], theta=case["theta"], eps=case["eps"], space=case["space"],
                swaps=case["swaps"][:6], incs=case["incs"][:6])
