"""C33 — provenance records each call exactly once.

Stateful oracle (H) expressed as a *drawn sequence of operations* so that the runner's replay and
shrinking work: a case is (initial tree sequence, list of ops); check() executes the ops one after
the other on the evolving tree sequence and keeps a model of the provenance table.

ops:   date(method=...), the named functions variational_gamma / inside_outside / maximization,
       preprocess_ts, split_disjoint_nodes; each with record_provenance in {omitted, None, True, False}
       and drawn parameters whose *types* include numpy scalars (float64/float32/int64/int32/bool_),
       ndarray / tuple / list delete_intervals, dict / PopulationSizeHistory population sizes.

after every successful call:
  recording on  -> exactly one more row; all earlier (record, timestamp) rows byte-identical; the
                   newest record is JSON, passes tskit.validate_provenance, software.name == "tsdate",
                   parameters.command == method name / "preprocess_ts" / "split_disjoint_nodes" and
                   every parameter that was passed (and is not None) appears with the value given
                   (numpy values compared after conversion to the equal Python number / nested list)
  recording off -> provenance table identical to the one before the call.
An exception raised from inside tsdate/provenance.py after the work was done is the property
failing ("appends exactly one valid record"); rejections / internal errors elsewhere are C35's and
only skip that op.
"""

import json
import logging
import os
import traceback

import numpy as np
import tskit
from hypothesis import strategies as st

import tsdate
from tsdate import util as tsdate_util

from vt.common import REPO, call, exc_key
from vt.gen import ts as G
from vt.runner import Violation

ID = "C33"
LEVEL = "exploration"
RULE = (
    "cases = (initial tree sequence with pre-existing provenance rows, sequence of 1-5 operations "
    "[date/named method/preprocess_ts/split_disjoint_nodes] each with drawn record_provenance and drawn "
    "parameter values and value TYPES [python, numpy scalar, ndarray/tuple/list]); non-trivial = >= 2 calls "
    "succeeded on the evolving tree sequence, >= 1 of them with recording on; distinct by SHA-1 of the case"
)
ASSUMPTIONS = [
    "only parameters that are passed explicitly and are not None are compared by value (None means 'default', "
    "which the record may resolve)",
    "parameters that tsdate does not put in the record by design (min_branch_length, constr_iterations, "
    "set_metadata, priors, simplify kwargs) are passed but not looked for",
    "population_size as np.int64/np.float32 is avoided (AttributeError in the prior code, C35's)",
    "tskit.validate_provenance is the validity predicate",
]

_tlog = logging.getLogger("tsdate")
_tlog.addHandler(logging.NullHandler())
_tlog.propagate = False

METHODS = ["variational_gamma", "inside_outside", "maximization"]
RECORD = ["omit", None, True, False]


def budget(tier):
    if tier == "quick":
        return dict(examples=100, shards=4)
    return dict(examples=800, shards=16)


# --------------------------------------------------------------------------
# typed values
# --------------------------------------------------------------------------


def typed_float(draw, values, types=("py", "py", "py", "py", "f64", "f32")):
    v = draw(st.sampled_from(values))
    t = draw(st.sampled_from(types))
    return {"py": float(v), "f64": np.float64(v), "f32": np.float32(v)}[t]


def typed_int(draw, values, types=("py", "py", "py", "py", "py", "py", "i64", "i32")):
    v = draw(st.sampled_from(values))
    t = draw(st.sampled_from(types))
    return {"py": int(v), "i64": np.int64(v), "i32": np.int32(v)}[t]


def typed_bool(draw, types=("py", "py", "py", "py", "py", "py", "py", "np")):
    v = draw(st.booleans())
    t = draw(st.sampled_from(types))
    return np.bool_(v) if t == "np" else v


def maybe(draw, thunk, p_none=2):
    """None (parameter passed as None) in 1/p_none of the draws"""
    if draw(st.integers(0, p_none - 1)) == 0:
        return None
    return thunk()


@st.composite
def date_op(draw, named):
    method = draw(st.sampled_from(METHODS))
    kw = {}
    kw["mutation_rate"] = typed_float(draw, [1e-3, 0.01, 0.1, 1.0])
    if draw(st.booleans()):
        kw["time_units"] = draw(st.sampled_from([None, "years", "generations"]))
    if draw(st.integers(0, 3)) == 0:
        kw["progress"] = draw(st.sampled_from([None, False]))
    # not recorded by design, but must not disturb recording
    if draw(st.integers(0, 3)) == 0:
        kw["min_branch_length"] = draw(st.sampled_from([1e-8, 1e-3]))
    if draw(st.integers(0, 3)) == 0:
        kw["set_metadata"] = draw(st.sampled_from([None, True, False]))
    if method == "variational_gamma":
        kw["rescaling_intervals"] = typed_int(draw, [0])
        kw["max_iterations"] = typed_int(draw, [1, 2, 3])
        if draw(st.booleans()):
            kw["rescaling_iterations"] = maybe(draw, lambda: typed_int(draw, [0, 2, 5]))
        if draw(st.booleans()):
            kw["match_segregating_sites"] = maybe(draw, lambda: typed_bool(draw))
        if draw(st.integers(0, 2)) == 0:
            kw["max_shape"] = maybe(draw, lambda: typed_float(draw, [100, 1000], types=("py", "py", "f64", "f32")))
        if draw(st.integers(0, 2)) == 0:
            kw["regularise_roots"] = maybe(draw, lambda: typed_bool(draw))
        if draw(st.integers(0, 3)) == 0:
            kw["singletons_phased"] = maybe(draw, lambda: True)
    else:
        style = draw(st.sampled_from(["int", "float", "f64", "dict", "dict_nd", "psh"]))
        if style == "int":
            kw["population_size"] = draw(st.sampled_from([10, 100, 1000]))
        elif style == "float":
            kw["population_size"] = draw(st.sampled_from([10.0, 123.5]))
        elif style == "f64":
            kw["population_size"] = np.float64(draw(st.sampled_from([10.0, 123.5])))
        else:
            epochs = draw(st.integers(1, 3))
            sizes = [draw(st.sampled_from([10.0, 50.0, 200.0])) for _ in range(epochs)]
            breaks = [10.0 * (i + 1) for i in range(epochs - 1)]
            if style == "dict":
                kw["population_size"] = {"population_size": sizes, "time_breaks": breaks}
                if epochs == 1 and draw(st.booleans()):
                    del kw["population_size"]["time_breaks"]
            elif style == "dict_nd":
                kw["population_size"] = {"population_size": np.array(sizes), "time_breaks": np.array(breaks)}
            else:
                kw["population_size"] = {"__psh__": True, "population_size": sizes, "time_breaks": breaks}
        if draw(st.booleans()):
            kw["eps"] = maybe(draw, lambda: typed_float(draw, [1e-8, 1e-6]), 3)
        if draw(st.booleans()):
            kw["probability_space"] = draw(st.sampled_from([None, "logarithmic", "linear"]))
        if draw(st.integers(0, 3)) == 0:
            kw["num_threads"] = None
        if method == "inside_outside":
            if draw(st.booleans()):
                kw["outside_standardize"] = maybe(draw, lambda: typed_bool(draw), 3)
            if draw(st.booleans()):
                kw["ignore_oldest_root"] = maybe(draw, lambda: typed_bool(draw), 3)
    return dict(op="named" if named else "date", method=method, record=draw(st.sampled_from(RECORD)), kw=kw)


@st.composite
def preprocess_op(draw, L):
    kw = {}
    mode = draw(st.sampled_from(["defaults", "gap", "gap", "intervals", "intervals"]))
    if mode == "gap":
        kw["minimum_gap"] = maybe(draw, lambda: (typed_int(draw, [1, 5, 1000000]) if draw(st.booleans())
                                                  else typed_float(draw, [2.5, 1e6])), 4)
        kw["erase_flanks"] = maybe(draw, lambda: typed_bool(draw), 3)
        if kw["minimum_gap"] is None and draw(st.booleans()):
            del kw["minimum_gap"]
        if kw["erase_flanks"] is None and draw(st.booleans()):
            del kw["erase_flanks"]
    elif mode == "intervals":
        n = draw(st.integers(0, 2))
        cuts = sorted(set(draw(st.lists(st.integers(0, 16), min_size=2 * n, max_size=2 * n))))
        cuts = cuts[: 2 * (len(cuts) // 2)]
        ivs = [[L * cuts[i] / 16.0, L * cuts[i + 1] / 16.0] for i in range(0, len(cuts), 2)]
        if ivs and ivs[0][0] == 0 and ivs[-1][1] == L and len(ivs) == 1:
            ivs = [[0.0, L / 2]]
        container = draw(st.sampled_from(["list", "list", "list", "tuple", "tuple", "ndarray", "list_f64", "list_i64"]))
        if container == "list":
            v = ivs
        elif container == "tuple":
            v = tuple(tuple(x) for x in ivs)
        elif container == "ndarray":
            v = np.array(ivs, dtype=np.float64).reshape(-1, 2)
        elif container == "list_f64":
            v = [[np.float64(a), np.float64(b)] for a, b in ivs]
        else:
            ivs = [[float(int(a)), float(int(b))] for a, b in ivs if int(a) < int(b)]
            v = [[np.int64(a), np.int64(b)] for a, b in ivs]
        kw["delete_intervals"] = v
    if draw(st.booleans()):
        kw["split_disjoint"] = maybe(draw, lambda: typed_bool(draw), 3)
    for name in ("filter_populations", "filter_individuals", "filter_sites"):
        if draw(st.integers(0, 3)) == 0:
            kw[name] = typed_bool(draw)
    if draw(st.integers(0, 4)) == 0:
        kw["keep_unary"] = False  # passed through to simplify, not recorded by design
    return dict(op="preprocess", record=draw(st.sampled_from(RECORD)), kw=kw)


@st.composite
def strategy_(draw, tier):
    ts = draw(G.general_ts(tier=tier, contemporaneous=True, single_root=True, min_muts=2, max_n=8, max_trees=8))
    n_prov = draw(st.integers(0, 3))
    L = float(ts.sequence_length)
    n_ops = draw(st.integers(1, 5))
    ops = []
    for _ in range(n_ops):
        k = draw(st.sampled_from(["date", "date", "named", "named", "preprocess", "preprocess", "split"]))
        if k == "date":
            ops.append(draw(date_op(False)))
        elif k == "named":
            ops.append(draw(date_op(True)))
        elif k == "preprocess":
            ops.append(draw(preprocess_op(L)))
        else:
            ops.append(dict(op="split", record=draw(st.sampled_from(RECORD)), kw={}))
    return dict(ts=ts, n_prov=n_prov, clear=draw(st.integers(0, 3)) == 0, ops=ops)


def strategy(tier):
    return strategy_(tier)


# --------------------------------------------------------------------------
# execution against the model
# --------------------------------------------------------------------------


def norm(v):
    """the Python value a numpy-typed argument stands for"""
    if isinstance(v, np.generic):
        return v.item()
    if isinstance(v, np.ndarray):
        return v.tolist()
    if isinstance(v, (list, tuple)):
        return [norm(x) for x in v]
    if isinstance(v, dict):
        return {k: norm(x) for k, x in v.items()}
    return v


def is_numpy_typed(v):
    if isinstance(v, (np.generic, np.ndarray)):
        return not isinstance(v, np.float64)  # np.float64 IS a Python float for json
    if isinstance(v, (list, tuple)):
        return any(is_numpy_typed(x) for x in v)
    if isinstance(v, dict):
        return False  # population dicts go through PopulationSizeHistory.as_dict()
    return False


def values_equal(given, recorded):
    g = json.loads(json.dumps(norm(given)))
    if isinstance(g, bool) or isinstance(recorded, bool):
        return isinstance(g, bool) and isinstance(recorded, bool) and g == recorded
    return g == recorded


def popsize_equal(given, recorded):
    if isinstance(given, dict):
        if not isinstance(recorded, dict):
            return False
        g = norm({k: v for k, v in given.items() if k != "__psh__"})
        if [float(x) for x in g["population_size"]] != recorded.get("population_size"):
            return False
        gb = [float(x) for x in g.get("time_breaks", [])]
        return gb == list(recorded.get("time_breaks", []))
    return values_equal(given, recorded)


def in_provenance_module(exc):
    for fr in traceback.extract_tb(exc.__traceback__):
        fn = os.path.realpath(fr.filename)
        if fn == os.path.join(REPO, "tsdate", "provenance.py"):
            return True
    return False


def prov_rows(ts):
    t = ts.tables.provenances
    return [(t[i].record, t[i].timestamp) for i in range(t.num_rows)]


def execute(op, ts):
    kw = dict(op["kw"])
    if op["record"] != "omit":
        kw["record_provenance"] = op["record"]
    if isinstance(kw.get("population_size"), dict) and kw["population_size"].get("__psh__"):
        d = kw["population_size"]
        kw["population_size"] = tsdate.demography.PopulationSizeHistory(d["population_size"], d["time_breaks"])
    if op["op"] == "date":
        return call(tsdate.date, ts, method=op["method"], **kw), op["method"]
    if op["op"] == "named":
        return call(getattr(tsdate, op["method"]), ts, **kw), op["method"]
    if op["op"] == "preprocess":
        return call(tsdate.preprocess_ts, ts, **kw), "preprocess_ts"
    return call(tsdate_util.split_disjoint_nodes, ts, **kw), "split_disjoint_nodes"


NOT_RECORDED = {"min_branch_length", "set_metadata", "constr_iterations", "keep_unary", "record_provenance"}


def check(case, ctx):
    tables = case["ts"].dump_tables()
    if case["clear"]:
        tables.provenances.clear()
    for j in range(case["n_prov"]):
        tables.provenances.add_row(record=json.dumps({"earlier": j, "unicode": "é"}), timestamp="2019-0%d-01T00:00:00" % (j + 1))
    cur = tables.tree_sequence()
    out = []
    n_ok = n_rec = 0
    for idx, op in enumerate(case["ops"]):
        name = op["op"] if op["op"] in ("preprocess", "split") else f"{op['op']}:{op['method']}"
        before = prov_rows(cur)
        recording = op["record"] is not False
        typed = sorted(k for k, v in op["kw"].items() if is_numpy_typed(v))
        (status, res), command = execute(op, cur)
        if status != "ok":
            if in_provenance_module(res):
                if isinstance(res, TypeError) and "JSON serializable" in str(res):
                    ctx.label("crash:numpy_not_json")
                    out.append(Violation("provenance_crash:numpy_not_json_serializable",
                                         f"{command}(...) did all its work and then raised {res!r} while writing the "
                                         f"provenance record; numpy-typed parameters: {typed} "
                                         f"({[type(op['kw'][k]).__name__ for k in typed]})", op=name, params=typed))
                else:
                    out.append(Violation("provenance_crash:" + exc_key(res), f"{command}(...) raised {res!r} inside provenance.py", op=name))
            else:
                ctx.label(f"op_{status}:{name.split(':')[0]}")
            continue
        new = res
        n_ok += 1
        ctx.label("ok:" + name, f"record={op['record']}")
        for k in typed:
            ctx.label("numpy_param_ok:" + k)
        after = prov_rows(new)
        if not recording:
            if after != before:
                out.append(Violation(f"recording_off_table_changed:{command}", f"{command}(record_provenance=False): provenance table "
                                     f"went from {len(before)} to {len(after)} rows / rows changed"))
            cur = new
            continue
        n_rec += 1
        if len(after) != len(before) + 1:
            out.append(Violation(f"count:{command}", f"{command}(record_provenance={op['record']!r}): {len(before)} -> {len(after)} "
                                 "provenance rows, expected exactly one more"))
            cur = new
            continue
        if after[:-1] != before:
            out.append(Violation(f"earlier_records_changed:{command}", f"{command}: earlier provenance rows were modified"))
        rec_s = after[-1][0]
        try:
            rec = json.loads(rec_s)
            tskit.validate_provenance(rec)
        except Exception as e:
            out.append(Violation(f"invalid_record:{command}", f"{command}: newest record is not a valid provenance document: {e!r}"))
            cur = new
            continue
        if rec.get("software", {}).get("name") != "tsdate":
            out.append(Violation("software_name", f"{command}: software.name = {rec.get('software')!r}"))
        params = rec.get("parameters", {})
        if params.get("command") != command:
            out.append(Violation(f"command:{command}", f"parameters.command = {params.get('command')!r}, expected {command!r}"))
        for k, v in op["kw"].items():
            if k in NOT_RECORDED:
                continue
            if k not in params:
                out.append(Violation(f"param_missing:{command}:{k}", f"{command}: parameter {k}={v!r} was passed but is not in the record "
                                     f"(recorded keys {sorted(params)})"))
                continue
            if v is None:
                continue
            ok = popsize_equal(v, params[k]) if k == "population_size" else values_equal(v, params[k])
            if not ok:
                out.append(Violation(f"param_value:{command}:{k}", f"{command}: parameter {k} given {v!r} recorded {params[k]!r}"))
        if op["op"] == "preprocess" and "delete_intervals" not in op["kw"]:
            if not isinstance(params.get("delete_intervals"), list):
                out.append(Violation("param_missing:preprocess_ts:delete_intervals", "computed delete_intervals not recorded as a list"))
        cur = new
    ctx.label(f"n_ok={n_ok}", f"n_ops={len(case['ops'])}")
    if n_ok == 0:
        ctx.discard("no op succeeded")
    if n_ok >= 2 and n_rec >= 1:
        ctx.mark_nontrivial()
    if n_ok >= 2 and 0 < n_rec < n_ok:
        ctx.label("mixed_recording_on_off")
    return out


def describe(case):
    return dict(ts=G.ts_summary(case["ts"]), n_prov=case["n_prov"], clear=case["clear"],
                ops=[dict(op=o["op"], method=o.get("method"), record=o["record"],
                          kw={k: f"{type(v).__name__}:{norm(v)!r}"[:60] for k, v in o["kw"].items()}) for o in case["ops"]])
