"""C27 — constraint enforcement is minimal and idempotent.

Oracle (R/M): exact children-first recursion out[u] = max(x[u], max_c fl(out[c]+eps)) for
iterations=0; strictly-satisfying vectors unchanged for every iteration count; idempotence;
and the same recursion linking the returned nodes_time of a real date() call to the fit's
unconstrained means.
"""

import numpy as np
import tskit
from hypothesis import strategies as st

import tsdate
from tsdate import util

from vt.common import call, node_is_sample
from vt.gen import ts as G
from vt.runner import Violation

ID = "C27"
LEVEL = "exploration"
RULE = (
    "cases = (DAG of a generated tree sequence incl. polytomies/historical/internal samples, "
    "drawn unconstrained time vector of a drawn style, eps, iterations) plus real date() calls; "
    "non-trivial = some node is raised because a child of it was itself raised (chain >= 2); "
    "distinct by SHA-1 of (tables, vector, eps, iterations)"
)
ASSUMPTIONS = [
    "eps >= 16 ulp(max|x|): the regime where fl(t+eps) == t belongs to C01",
    "iterations > 0: entries of sample nodes equal the (valid) sample times, as every caller passes",
    "numpy/tskit trusted",
]


def budget(tier):
    if tier == "quick":
        return dict(examples=600, shards=4)
    return dict(examples=6000, shards=16)


STYLES = ["near", "random", "ties", "inverted", "huge", "tiny", "satisfied"]


@st.composite
def strategy_(draw, tier):
    ts = draw(G.general_ts(tier=tier, contemporaneous=draw(st.booleans()), min_muts=1,
                           single_root=draw(st.booleans())))
    mode = draw(st.sampled_from(["vector", "vector", "vector", "date"]))
    eps = 10.0 ** draw(st.integers(-8, 2))
    iters = draw(st.sampled_from([0, 0, 1, 5, 100]))
    if mode == "date":
        return dict(mode=mode, ts=ts, eps=eps, iters=iters, mu=10.0 ** draw(st.integers(-4, 0)),
                    method=draw(st.sampled_from(["variational_gamma", "inside_outside", "maximization"])))
    style = draw(st.sampled_from(STYLES))
    n = ts.num_nodes
    vals = draw(st.lists(st.floats(0, 1, allow_nan=False), min_size=n, max_size=n))
    return dict(mode=mode, ts=ts, eps=eps, iters=iters, style=style, vals=vals)


def strategy(tier):
    return strategy_(tier)


def make_vector(ts, style, vals, eps):
    t = ts.nodes_time.copy()
    v = np.array(vals)
    tmax = max(t.max(), 1.0)
    if style == "near":
        x = t * (0.5 + v)
    elif style == "random":
        x = v * tmax
    elif style == "ties":
        x = np.full_like(t, tmax * vals[0])
    elif style == "inverted":
        x = tmax - t + v * 0.01
    elif style == "huge":
        x = (t * (0.5 + v)) * 1e12
    elif style == "tiny":
        x = (t * (0.5 + v)) * 1e-6
    elif style == "satisfied":
        # strictly satisfying: spread nodes by topological depth
        depth = np.zeros(ts.num_nodes)
        for e in ts.edges():  # edges sorted by parent time => children first
            depth[e.parent] = max(depth[e.parent], depth[e.child] + 1)
        x = depth * 3.0 * eps + v * eps
    else:
        raise ValueError(style)
    return np.ascontiguousarray(x, dtype=np.float64)


def oracle_recursion(ts, x, eps):
    """children-first recursion over the DAG (topological order from the edge relation)"""
    n = ts.num_nodes
    children = [set() for _ in range(n)]
    indeg = np.zeros(n, dtype=int)
    for p, c in zip(ts.edges_parent, ts.edges_child):
        if c not in children[p]:
            children[p].add(c)
    parents = [set() for _ in range(n)]
    for p in range(n):
        for c in children[p]:
            parents[c].add(p)
    pending = np.array([len(children[u]) for u in range(n)])
    out = np.array(x, dtype=np.float64).copy()
    raised = np.zeros(n, dtype=bool)
    chain = False
    stack = [u for u in range(n) if pending[u] == 0]
    while stack:
        u = stack.pop()
        for c in children[u]:
            cand = out[c] + eps
            if cand >= out[u]:
                if cand > out[u]:
                    raised[u] = True
                    if raised[c]:
                        chain = True
                out[u] = cand
        for p in parents[u]:
            pending[p] -= 1
            if pending[p] == 0:
                stack.append(p)
    return out, raised, chain


def check(case, ctx):
    ts = case["ts"]
    eps = case["eps"]
    iters = case["iters"]
    out = []
    if case["mode"] == "date":
        return check_date(case, ctx)
    x = make_vector(ts, case["style"], case["vals"], eps)
    is_s = node_is_sample(ts)
    eps = max(eps, 16 * float(np.spacing(np.abs(x).max() + eps)))
    ctx.label("style=" + case["style"], f"iters={iters}")
    if iters > 0:
        x[is_s] = ts.nodes_time[is_s]
    status, res = call(util.constrain_ages, ts, x.copy(), eps, iters)
    if status != "ok":
        return [Violation("constrain_ages_raised:" + type(res).__name__, f"constrain_ages raised {res!r}")]
    res = np.asarray(res)
    exp, raised, chain = oracle_recursion(ts, x, eps)
    if chain:
        ctx.mark_nontrivial()
        ctx.label("chain")
    if iters == 0:
        if not np.array_equal(res, exp):
            bad = np.flatnonzero(res != exp)
            kind = "raised_too_much" if np.any(res[bad] > exp[bad]) else "raised_too_little"
            out.append(Violation(f"recursion:{kind}", f"iterations=0: node {bad[0]} got {res[bad[0]]!r}, "
                                 f"minimal recursion gives {exp[bad[0]]!r}", nodes=bad[:5]))
    # validity of result for any iteration count: constraint holds on every edge
    p, c = ts.edges_parent, ts.edges_child
    if np.any(res[p] < res[c] + eps):
        e = int(np.flatnonzero(res[p] < res[c] + eps)[0])
        out.append(Violation("constraint_not_enforced", f"edge {e}: parent {res[p[e]]!r} < child {res[c[e]]!r} + eps {eps!r} (iters={iters})"))
    # already strictly satisfying vectors come back unchanged
    strictly = bool(np.all(x[p] - x[c] > eps) and np.all(x[c] + eps < x[p]))
    if strictly:
        ctx.label("strictly_satisfied_input")
        if not np.array_equal(res, x):
            out.append(Violation("satisfied_changed", f"strictly satisfying vector changed (iters={iters})"))
    # constrained output: strictly satisfying after adding slack? idempotence
    status2, res2 = call(util.constrain_ages, ts, res.copy(), eps, iters)
    if status2 != "ok":
        out.append(Violation("constrain_ages_raised_2nd:" + type(res2).__name__, f"second application raised {res2!r}"))
    elif not np.array_equal(np.asarray(res2), res):
        out.append(Violation(f"not_idempotent:iters={'0' if iters == 0 else 'pos'}", f"second application changed times (iters={iters})"))
    # for any iteration count, check the other iteration counts agree on satisfied inputs
    if strictly:
        for it2 in (0, 1, 7):
            st3, r3 = call(util.constrain_ages, ts, x.copy(), eps, it2)
            if st3 != "ok" or not np.array_equal(np.asarray(r3), x):
                out.append(Violation("satisfied_changed", f"strictly satisfying vector changed (iters={it2})"))
                break
    return out


def check_date(case, ctx):
    ts = case["ts"]
    method = case["method"]
    eps = case["eps"]
    ctx.label("mode=date", "method=" + method)
    contemporaneous = G.is_contemporaneous(ts)
    kw = dict(mutation_rate=case["mu"], min_branch_length=eps, return_fit=True, method=method)
    if method == "variational_gamma":
        kw.update(rescaling_intervals=0, max_iterations=3)
    else:
        kw.update(population_size=100.0)
    # constr_iterations left at its default: the statement's "default when all samples are
    # contemporaneous" is the least-squares phase being off
    status, res = call(tsdate.date, ts, **kw)
    if status != "ok":
        ctx.discard("date_" + status)
        return []
    dts, fit = res
    if not contemporaneous:
        ctx.discard("noncontemporaneous_default_uses_least_squares")
        return []
    if method == "maximization":
        mean = np.asarray(fit.posterior_mean, dtype=float)
    else:
        mean = np.asarray(fit.node_posteriors()["mean"], dtype=float) if method == "variational_gamma" else None
    if mean is None:
        # inside_outside: mean from metadata
        from vt.common import node_metadata_mn_vr
        mean, _ = node_metadata_mn_vr(dts)
        s = node_is_sample(ts)
        mean[s] = ts.nodes_time[s]
    if 16 * np.spacing(np.abs(mean).max() + eps) > eps:
        ctx.discard("eps_below_16ulp (C01 regime)")
        return []
    exp, raised, chain = oracle_recursion(ts, mean, eps)
    if chain:
        ctx.mark_nontrivial()
        ctx.label("chain")
    if raised.any():
        ctx.label("date_constraint_fired")
    if not np.array_equal(dts.nodes_time, exp):
        bad = np.flatnonzero(dts.nodes_time != exp)
        return [Violation(f"date_recursion:{method}", f"returned nodes_time[{bad[0]}]={dts.nodes_time[bad[0]]!r} but "
                          f"minimal recursion on the unconstrained means gives {exp[bad[0]]!r}")]
    return []


def describe(case):
    d = dict(mode=case["mode"], eps=case["eps"], iters=case["iters"], ts=G.ts_summary(case["ts"]))
    if case["mode"] == "vector":
        d["style"] = case["style"]
        d["vals_head"] = case["vals"][:4]
    else:
        d["method"] = case["method"]
    return d
