"""C03 — sample times are kept, except for the minimal push above dated children.

Oracle (I, exact): for every sample node s of the input,
  * s has no child edge          -> out[s] == in[s] bit for bit;
  * s is a parent on some edge   -> out[s] == max(in[s], max over child edges of cand(c)) bit for bit,
    cand(c) = fl(out[c] + min_branch_length), or the next float above out[c] where that sum is
    absorbed (fl(out[c]+eps) == out[c]; the statement's "at least min_branch_length above" cannot
    be met more tightly in floating point, see C01/F1).
Only output values are used, so the identity must hold for every constr_iterations setting: in the
least-squares phase samples are fixed, afterwards the forced pass may raise them.
"""

import numpy as np
import tskit
from hypothesis import strategies as st

from vt.common import node_is_sample
from vt.gen import cfg_a as A
from vt.runner import Violation

ID = "C03"
LEVEL = "exploration"
RULE = (
    "cases = variational_gamma on generated tree sequences with internal samples (flagged internal nodes, "
    "unary sample nodes spliced into edges), historical leaf samples, input times x 1e-6..1e12, mutation "
    "rates that put the children's dates below or above the sample's own time, x constr_iterations in "
    "{default,0,1,5,100} x min_branch_length 1e-12..1e2; plus contemporaneous inputs x all three methods "
    "for the leaf clause; non-trivial = some sample was pushed above a child (child output time + "
    "min_branch_length exceeds the sample's input time) or a historical leaf sample exists; distinct by "
    "SHA-1 of the case"
)
ASSUMPTIONS = [
    "only variational_gamma accepts non-contemporaneous or internal samples; discrete methods get "
    "contemporaneous leaf samples only",
    "calls that raise (clean rejections, F1/F2/F8 internal errors) are outside the statement and discarded",
    "where fl(child+eps)==child the next representable float above the child is accepted as 'minimal'",
]


def budget(tier):
    if tier == "quick":
        return dict(examples=110, shards=4, time_s=1800)  # cap only: cold-JIT audits on a loaded machine
    return dict(examples=800, shards=16)


@st.composite
def strategy_(draw, tier):
    mode = draw(st.sampled_from(["internal", "internal", "unary", "historical", "any"]))
    if mode == "any":
        return draw(A.dating_case(tier, eps_range=(-12, 2)))
    return draw(A.dating_case(tier, methods=("variational_gamma",), want=mode, unphased=False))


def strategy(tier):
    return strategy_(tier)


DEFAULT_EPS = 1e-8


def expected_sample_times(ts, out_t, eps):
    """(expected, pushed, has_child) for all nodes; only sample entries are meaningful"""
    n = ts.num_nodes
    exp = ts.nodes_time.copy()
    has_child = np.zeros(n, dtype=bool)
    cand = out_t + eps
    absorbed = cand <= out_t
    cand[absorbed] = np.nextafter(out_t[absorbed], np.inf)
    p, c = ts.edges_parent, ts.edges_child
    has_child[p] = True
    best = np.full(n, -np.inf)
    np.maximum.at(best, p, cand[c])
    pushed = best > exp
    exp = np.maximum(exp, best)
    return exp, pushed, has_child, bool(absorbed[c].any())


def check(case, ctx):
    ts = case["ts"]
    eps = case["kw"].get("min_branch_length", DEFAULT_EPS)
    status, res = A.run_dating(case)
    if status != "ok":
        r = A.classify_failure(status, res)
        if status == "internal" and isinstance(res, tskit.LibraryError) and A.raised_in(res, "get_modified_ts"):
            r = "internal:invalid_output(C01/F1)"
        ctx.discard(r)
        return []
    dts = res[0]
    ctx.label(*A.option_labels(case), *A.input_labels(ts))
    out_t = dts.nodes_time
    in_t = ts.nodes_time
    if dts.num_nodes != ts.num_nodes:
        ctx.discard("node_table_changed(C02)")
        return []
    is_s = node_is_sample(ts)
    exp, pushed, has_child, absorbed = expected_sample_times(ts, out_t.copy(), eps)
    out = []
    leaf_s = is_s & ~has_child
    int_s = is_s & has_child
    bad = np.flatnonzero(leaf_s & (out_t != in_t))
    if len(bad):
        u = int(bad[0])
        out.append(Violation("leaf_sample_moved", f"sample {u} has no children but its time changed from {in_t[u]!r} to {out_t[u]!r}",
                             nodes=bad[:5]))
    bad = np.flatnonzero(int_s & (out_t != exp))
    if len(bad):
        u = int(bad[0])
        if out_t[u] < in_t[u]:
            kind = "moved_younger"
        elif out_t[u] > exp[u]:
            kind = "pushed_too_far" if pushed[u] else "moved_without_need"
        else:
            kind = "not_pushed_enough"
        out.append(Violation(f"internal_sample:{kind}",
                             f"sample {u} (input time {in_t[u]!r}) has output time {out_t[u]!r}; minimal time above its "
                             f"children's output times with min_branch_length {eps!r} is {exp[u]!r}",
                             nodes=bad[:5], constr_iterations=case["kw"].get("constr_iterations")))
    # labels / non-triviality
    hist_leaf = bool(np.any(leaf_s & (in_t > 0)))
    if np.any(int_s & pushed):
        ctx.label("sample_pushed")
        ctx.mark_nontrivial()
        if absorbed:
            ctx.label("sample_pushed_with_eps_absorbed")
    if np.any(int_s & ~pushed):
        ctx.label("internal_sample_kept")
    if hist_leaf:
        ctx.label("historical_leaf_kept")
        ctx.mark_nontrivial()
    if np.any(int_s & (in_t > 0)):
        ctx.label("internal_sample_positive_time")
    return out


def describe(case):
    return A.describe(case)
