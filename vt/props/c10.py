"""C10 — inside_outside is exact on a single tree.

Oracle (E): brute-force enumeration of all G^k assignments of grid indices to the k internal
nodes of one small tree (vt/oracle/discrete_bruteforce.py; own Poisson formula, no tsdate
code).  Compared: every non-sample row of fit.node_posteriors() and the likelihood returned
with return_likelihood=True.

What "the model's exact normalising constant" is (derived from BeliefPropagation.inside_pass
and confirmed on the unchanged tree to ~1e-15): inside_pass starts every node from
`self.priors[parent]` -- the grid row exactly as it is stored in the prior object (for
build_prior_grid that is the CDF-difference row rescaled so that its largest entry is 1; a
hand-filled row is used as it is, nothing renormalises it) -- multiplies in the children's
messages, divides by the row maximum ("denominator") and multiplies the running
marginal_lik by the same denominator; finally it multiplies by sum(inside[root]).  All the
denominators cancel, so the returned value is

    Z = sum_t  prod_u prior_row[u][t_u]  prod_edges Poisson(m_e; (T[t_p]-T_c+eps) mu span_e) [t_p>=t_c]

(linear space) or log Z (logarithmic space): the normalising constant of the model *as given*,
with unnormalised prior rows.  On a single tree every span fraction is 1 so the geometric
scaling is the identity.  outside_standardize only multiplies each outside row by a scalar
and InsideOutsideMethod.run() normalises every posterior row afterwards, so it must not
change the posterior (it is drawn, and not alarmed on).

Calibration on the unchanged tree (quick tier, seeds 1..5, ~5 400 cases each incl. 1 791
enumerated): worst |posterior - exact| = 2.5e-14 (tolerance 1e-10), worst relative error of Z /
error of log Z relative to max(1,|log Z|) = 3.9e-14 (tolerance 1e-9).
"""

import sys

import numpy as np
from hypothesis import strategies as st

import tsdate

from vt.common import call, exc_key
from vt.gen import shapes as S
from vt.gen import ts as G
from vt.oracle import discrete_bruteforce as BF
from vt.runner import Violation

ID = "C10"
LEVEL = "exploration"
EXHAUSTIVE = True
RULE = (
    "cases = (one tree of 2..6 leaves incl. polytomies with 0..4 mutations per edge, prior grid "
    "= build_prior_grid with int or explicit timepoints (3..7 points, lognorm/gamma) or a hand-filled "
    "grid with zero/non-zero mass at time 0 and interior zeros at a drawn scale, eps=10^k, mutation "
    "rate chosen so the largest Poisson mean is 0.01..300, linear/logarithmic space, cache_inside, "
    "outside_standardize, num_threads, date()/inside_outside() entry point); non-trivial = >=2 "
    "internal nodes and (a polytomy or edges with 0 and with >0 mutations); distinct by SHA-1 of the "
    "case. Thorough tier additionally enumerates ALL rooted tree shapes with <=5 leaves x mutation "
    "counts {0,1,3} on every edge x 3 fixed (grid, prior, eps, rate, space) configurations "
    "(exhaustive for that sub-space); the quick tier runs a 1-in-N stride sample of that enumeration."
)
ASSUMPTIONS = [
    "single tree, one root, samples at time 0, no unary nodes; time grid starts at 0",
    "hand-filled prior rows are non-negative, finite, and leave at least one assignment with positive "
    "weight (cases with Z = 0, or with a posterior whose mass beyond time 0 is < 1e-200, are discarded)",
    "linear space is only run where the Poisson terms stay far from underflow (largest mean <= 30)",
    "trusted: numpy, math.lgamma, tskit tree traversal; tolerance 1e-10 abs on posteriors, 1e-9 rel on Z",
]

POST_TOL = 1e-10
Z_TOL = 1e-9
MAX_ENUM = 1_000_000


def _cli_shards(tier):
    if "--shards" in sys.argv:
        try:
            return int(sys.argv[sys.argv.index("--shards") + 1])
        except (ValueError, IndexError):
            pass
    return budget(tier)["shards"]


def budget(tier):
    if tier == "quick":
        return dict(examples=600, shards=4, time_s=2400)  # time_s: cold JIT import alone took >900 s on the loaded build machine
    return dict(examples=5000, shards=16)


# --------------------------------------------------------------------------
# generation
# --------------------------------------------------------------------------


@st.composite
def strategy_(draw, tier):
    ts = draw(G.single_tree(max_leaves=6, max_arity=4, max_muts_per_edge=4))
    k = ts.num_nodes - ts.num_samples
    space = draw(st.sampled_from(["linear", "logarithmic"]))
    prior_kind = draw(st.sampled_from(["built_explicit", "built_explicit", "built_int", "hand", "hand"]))
    case = dict(
        ts=ts,
        space=space,
        prior_kind=prior_kind,
        ne=draw(st.sampled_from([0.5, 1.0, 100.0, 1e4])),
        distr=draw(st.sampled_from(["lognorm", "gamma"])),
        eps_exp=draw(st.integers(-10, 0)),
        rate=draw(st.sampled_from([0.01, 0.3, 3.0, 30.0] + ([300.0] if space == "logarithmic" else []))),
        cache_inside=draw(st.booleans()),
        outside_standardize=draw(st.sampled_from([True, False, None])),
        # num_threads >= 2 starts a multiprocessing pool (1.3-2.3 s per call measured, more in a
        # forked shard on a busy machine): thorough tier only, ~0.3 % of cases (an interior value
        # of the range is used because Hypothesis over-samples the ends of integer ranges)
        num_threads=(2 if (tier == "thorough" and draw(st.integers(0, 299)) == 137)
                     else draw(st.sampled_from([None, None, None, 1, 1]))),
        api=draw(st.sampled_from(["inside_outside", "inside_outside", "date"])),
    )
    if prior_kind == "built_int":
        case["n_points"] = draw(st.integers(2, 4))
    else:
        g = draw(st.integers(3, 7 if k <= 5 else 6))
        # increments in coalescent units; multiplied by 2*ne to land on the bulk of the prior
        case["incs"] = draw(st.lists(st.sampled_from([0.02, 0.1, 0.25, 0.5, 1.0, 2.0]), min_size=g - 1, max_size=g - 1))
    if prior_kind == "hand":
        g = len(case["incs"]) + 1
        case["vals"] = draw(st.lists(st.floats(0.001, 1.0, allow_nan=False), min_size=k * g, max_size=k * g))
        case["zero_frac"] = draw(st.sampled_from([0, 2, 4]))
        case["zero_pick"] = draw(st.lists(st.integers(0, 9), min_size=k * g, max_size=k * g))
        case["t0"] = draw(st.sampled_from(["zero", "zero", "mass"]))
        case["top_positive"] = draw(st.booleans())
        case["scale_exp"] = draw(st.sampled_from([0, 0, -3, 2]))
    return case


def strategy(tier):
    return strategy_(tier)


def make_prior(case):
    """-> (status, prior object or exception). Built on every call: the run converts the
    prior object it is given to its own probability space in place."""
    ts = case["ts"]
    ne = case["ne"]
    if case["prior_kind"] == "built_int":
        timepoints = int(case["n_points"])
    else:
        timepoints = 2.0 * ne * np.concatenate([[0.0], np.cumsum(case["incs"])])
    status, pr = call(tsdate.build_prior_grid, ts, population_size=ne, timepoints=timepoints,
                      prior_distribution=case["distr"])
    if status != "ok":
        return status, pr
    if case["prior_kind"] != "hand":
        return "ok", pr
    g = len(pr.timepoints)
    nodes = sorted(int(u) for u in pr.nonfixed_nodes)
    hp = pr.clone_with_new_data(grid_data=np.zeros_like(pr.grid_data))
    vals = np.array(case["vals"], dtype=np.float64).reshape(len(nodes), g)
    zero = np.array(case["zero_pick"]).reshape(len(nodes), g) < case["zero_frac"]
    vals = np.where(zero, 0.0, vals)
    if case["t0"] == "zero":
        vals[:, 0] = 0.0
    if case["top_positive"]:
        vals[:, -1] = np.maximum(vals[:, -1], np.array(case["vals"]).reshape(len(nodes), g)[:, -1])
    vals = vals * 10.0 ** case["scale_exp"]
    for i, u in enumerate(nodes):
        hp[u] = vals[i]
    return "ok", hp


def run_tsdate(case, ts, prior, eps, mu):
    kw = dict(mutation_rate=mu, priors=prior, eps=eps, probability_space=case["space"],
              cache_inside=case["cache_inside"], outside_standardize=case["outside_standardize"],
              num_threads=case["num_threads"], return_fit=True, return_likelihood=True)
    if case["api"] == "date":
        return call(tsdate.date, ts, method="inside_outside", **kw)
    return call(tsdate.inside_outside, ts, **kw)


def _concentrated_at_time0(post):
    """Only reachable with hand-filled priors that put mass on time 0 for an internal node (never
    produced by build_prior_grid).  InsideOutsideMethod.run() rescales each posterior row by its
    maximum over the grid points AFTER the first (NodeTimeValues.standardize), so a row whose mass
    beyond time 0 is below ~1e-308 of its first entry overflows to inf/NaN there (seen: seed 3,
    rate 300, `LibraryError: Times must be finite`).  Kept outside the domain, with a wide margin."""
    return any(np.max(p[1:]) < 1e-200 for p in post.values())


def compare(ts, fit, lik, space, model, T, rows, eps, mu, ctx, tag=""):
    """-> list of Violations; discards through ctx and returns None if outside the domain"""
    if len(T) ** len(model.internal) > MAX_ENUM:
        ctx.discard("enumeration too large")
        return None
    logZ, post = BF.enumerate_model(model, T, rows, eps, mu)
    if not np.isfinite(logZ):
        ctx.discard("prior leaves no assignment with positive weight (Z=0)")
        return None
    if _concentrated_at_time0(post):
        ctx.discard("a posterior is concentrated at time 0 (mass elsewhere < 1e-200)")
        return None
    out = []
    P = np.asarray(fit.node_posteriors()).view(np.float64).reshape(ts.num_nodes, -1)
    if P.shape[1] != len(T):
        return [Violation("posterior_shape", f"posterior has {P.shape[1]} columns, grid has {len(T)}")]
    worst, worst_u = 0.0, None
    for u, p in post.items():
        row = P[u]
        if not np.all(np.isfinite(row)):
            return [Violation(f"posterior_not_finite:{space}", f"node {u}: posterior row {row!r}, exact {p!r}")]
        e = float(np.abs(row - p).max())
        if e > worst:
            worst, worst_u = e, u
    ctx.extra["worst_post_err"] = [max(ctx.extra.get("worst_post_err", [0.0])[0], worst)]
    if worst > POST_TOL:
        out.append(Violation(f"posterior_not_exact:{space}{tag}",
                             f"node {worst_u}: |posterior - exact marginal| = {worst:.3g} "
                             f"(got {P[worst_u]!r}, exact {post[worst_u]!r})", err=worst))
    lik = float(lik)
    if space == "linear":
        with np.errstate(over="ignore"):
            z = np.exp(logZ)
        if z < 1e-290 or not np.isfinite(z):
            ctx.discard("Z outside double range in linear space")
            return out
        ez = abs(lik - z) / z
    else:
        ez = abs(lik - logZ) / max(1.0, abs(logZ))
        z = logZ
    ctx.extra["worst_Z_err"] = [max(ctx.extra.get("worst_Z_err", [0.0])[0], float(ez) if np.isfinite(ez) else np.inf)]
    if not (ez <= Z_TOL):
        out.append(Violation(f"likelihood_not_Z:{space}{tag}",
                             f"returned likelihood {lik!r}, exact {'Z' if space == 'linear' else 'log Z'} = {z!r} "
                             f"(rel err {ez:.3g})", err=float(ez)))
    return out


def check(case, ctx):
    if "cfg" in case:  # a case recorded by extra() (the runner replays those through check)
        return replay_extra(case, ctx)
    ts = case["ts"]
    space = case["space"]
    k = ts.num_nodes - ts.num_samples
    status, prior = make_prior(case)
    if status != "ok":
        ctx.discard("build_prior_grid_" + status + ":" + exc_key(prior))
        return []
    T = np.array(prior.timepoints, dtype=np.float64)
    rows = {int(u): np.array(prior[u], dtype=np.float64).copy() for u in prior.nonfixed_nodes}
    if T[0] != 0 or not all(np.all(np.isfinite(r)) and np.all(r >= 0) for r in rows.values()):
        ctx.discard("degenerate built prior (non-finite row)")
        return []
    g = len(T)
    eps = 10.0 ** case["eps_exp"]
    span = ts.sequence_length
    mu = case["rate"] / (span * (T[-1] + eps))
    model = BF.model_from_ts(ts)
    counts = list(model.edge_muts.values())
    polytomy = any(len(c) > 2 for c in model.children.values())
    ctx.label("space=" + space, "prior=" + case["prior_kind"], f"G={g}", f"k={k}", f"eps=1e{case['eps_exp']}",
              f"rate={case['rate']}", f"cache_inside={case['cache_inside']}",
              f"outside_standardize={case['outside_standardize']}", f"num_threads={case['num_threads']}",
              "api=" + case["api"])
    if case["prior_kind"] != "hand":
        ctx.label("distr=" + case["distr"])
    else:
        ctx.label("hand_t0=" + case["t0"], f"hand_scale=1e{case['scale_exp']}")
        if any(np.any(r[1:-1] == 0) for r in rows.values()):
            ctx.label("hand_interior_zero")
        if any(r[-1] == 0 for r in rows.values()):
            ctx.label("hand_top_zero")
    if polytomy:
        ctx.label("polytomy")
    mixed = (min(counts) == 0 and max(counts) > 0)
    if mixed:
        ctx.label("mixed_mutation_counts")
    if sum(counts) == 0:
        ctx.label("no_mutations")
    status, res = run_tsdate(case, ts, prior, eps, mu)
    if status == "rejected":
        # no rejection is documented for these inputs: report, do not pass silently
        logZ, _ = BF.enumerate_model(model, T, rows, eps, mu) if g ** k <= MAX_ENUM else (0.0, None)
        if not np.isfinite(logZ):
            ctx.discard("prior leaves no assignment with positive weight (Z=0)")
            return []
        return [Violation("rejected:" + exc_key(res), f"valid single-tree input rejected: {res!r}")]
    if status == "internal":
        logZ, post = BF.enumerate_model(model, T, rows, eps, mu) if g ** k <= MAX_ENUM else (0.0, {})
        if not np.isfinite(logZ):
            ctx.discard("prior leaves no assignment with positive weight (Z=0)")
            return []
        if _concentrated_at_time0(post):
            ctx.discard("a posterior is concentrated at time 0 (mass elsewhere < 1e-200)")
            return []
        return [Violation("raised:" + exc_key(res), f"inside_outside raised {res!r}")]
    dts, fit, lik = res
    out = compare(ts, fit, lik, space, model, T, rows, eps, mu, ctx)
    if out is None:
        return []
    if k >= 2 and (polytomy or mixed):
        ctx.mark_nontrivial()
    return out


def describe(case):
    d = {kk: v for kk, v in case.items() if kk not in ("ts", "vals", "zero_pick")}
    d["ts"] = G.ts_summary(case["ts"])
    return d


# --------------------------------------------------------------------------
# enumeration sub-tier: all shapes with <= 5 leaves x counts {0,1,3} per edge x 3 configs
# --------------------------------------------------------------------------

MAX_LEAVES_ENUM = 5
COUNT_VALUES = (0, 1, 3)
CONFIGS = [
    # explicit grid, conditional-coalescent prior, linear space
    dict(name="lin_lognorm_G4", space="linear", timepoints=np.array([0.0, 0.3, 1.1, 2.5]), ne=0.5,
         distr="lognorm", eps=1e-6, rate=3.0, cache_inside=False, hand=None),
    # hand-filled grid with zeros (time 0 and an interior point), logarithmic space
    dict(name="log_hand_G3", space="logarithmic", timepoints=np.array([0.0, 1.0, 2.0]), ne=0.5,
         distr="lognorm", eps=1e-2, rate=1.0, cache_inside=True, hand="zeros"),
    # five points, gamma prior, logarithmic space, default eps
    dict(name="log_gamma_G5", space="logarithmic", timepoints=np.array([0.0, 0.2, 0.5, 1.0, 3.0]), ne=0.5,
         distr="gamma", eps=1e-8, rate=10.0, cache_inside=False, hand=None),
]


def enum_items():
    """deterministic list of (shape index tuple, counts tuple); 35 190 items"""
    for n in range(2, MAX_LEAVES_ENUM + 1):
        for si, shape in enumerate(S.all_shapes(n)):
            nl, parent, times = S.shape_to_parent(shape)
            for counts in S.edge_count_assignments(len(parent), COUNT_VALUES):
                yield (n, si), counts


def enum_total():
    tot = 0
    for n in range(2, MAX_LEAVES_ENUM + 1):
        for shape in S.all_shapes(n):
            tot += len(COUNT_VALUES) ** len(S.shape_to_parent(shape)[1])
    return tot * len(CONFIGS)


def hand_rows(cfg, nodes, g):
    """fixed hand-filled rows: zero at time 0, every second node has an interior zero"""
    rows = {}
    for i, u in enumerate(nodes):
        r = np.array([0.0] + [0.2 + 0.6 * ((3 * i + 2 * j) % 5) / 4 for j in range(1, g)])
        if i % 2 == 1 and g > 2:
            r[1 + (i // 2) % (g - 2)] = 0.0
        rows[u] = r
    return rows


def run_enum_case(shape_key, counts, cfg_i, ctx):
    n, si = shape_key
    cfg = CONFIGS[cfg_i]
    shape = S.all_shapes(n)[si]
    nl, parent, times = S.shape_to_parent(shape)
    ts = S.build_tree_ts(nl, parent, times, list(counts), span=1.0 if cfg_i != 2 else 7.5)
    status, prior = call(tsdate.build_prior_grid, ts, population_size=cfg["ne"], timepoints=cfg["timepoints"],
                         prior_distribution=cfg["distr"])
    if status != "ok":
        return [Violation("enum_build_prior:" + exc_key(prior), f"build_prior_grid failed: {prior!r}")]
    if cfg["hand"]:
        nodes = sorted(int(u) for u in prior.nonfixed_nodes)
        rws = hand_rows(cfg, nodes, len(prior.timepoints))
        prior = prior.clone_with_new_data(grid_data=np.zeros_like(prior.grid_data))
        for u in nodes:
            prior[u] = rws[u]
    T = np.array(prior.timepoints, dtype=np.float64)
    rows = {int(u): np.array(prior[u], dtype=np.float64).copy() for u in prior.nonfixed_nodes}
    eps = cfg["eps"]
    mu = cfg["rate"] / (ts.sequence_length * T[-1])
    status, res = call(tsdate.inside_outside, ts, mutation_rate=mu, priors=prior, eps=eps,
                       probability_space=cfg["space"], cache_inside=cfg["cache_inside"],
                       return_fit=True, return_likelihood=True)
    if status != "ok":
        return [Violation("enum_raised:" + exc_key(res), f"inside_outside raised {res!r}")]
    dts, fit, lik = res
    model = BF.model_from_ts(ts)
    out = compare(ts, fit, lik, cfg["space"], model, T, rows, eps, mu, ctx, tag=":enum")
    return out


def extra(ctx, tier, shard):
    nshards = _cli_shards(tier)
    stride = 1 if tier == "thorough" else 59  # quick: ~1.7 % sample (a prime stride mixes shapes/counts)
    done = 0
    complete = True
    for idx, (shape_key, counts) in enumerate(enum_items()):
        if idx % stride != 0:
            continue
        if (idx // stride) % nshards != shard:
            continue
        if ctx.out_of_time():
            ctx.budget_exhausted = True
            complete = False
            break
        for cfg_i in range(len(CONFIGS)):
            vs = run_enum_case(shape_key, counts, cfg_i, ctx)
            ctx.evaluations += 1
            done += 1
            if vs is None:
                complete = False  # discarded: outside the domain (should not happen here)
                continue
            key = dict(shape=list(shape_key), counts=list(counts), cfg=cfg_i)
            n_internal = len(S.shape_to_parent(S.all_shapes(shape_key[0])[shape_key[1]])[2]) - shape_key[0]
            if n_internal >= 2:
                ctx.add_nontrivial(("enum", shape_key, counts, cfg_i))
            ctx.labels["enum:" + CONFIGS[cfg_i]["name"]] += 1
            for v in vs:
                ctx.violation(v, case=key)
    ctx.extra["enumerated"] = done
    if tier == "thorough":
        ctx.extra["exhaustive"] = complete


def replay_extra(case, ctx):
    return run_enum_case(tuple(case["shape"]), tuple(case["counts"]), case["cfg"], ctx) or []


def finish(ctx, tier):
    for kk in ("worst_post_err", "worst_Z_err"):  # per-shard maxima were concatenated by the runner
        if isinstance(ctx.extra.get(kk), list):
            ctx.extra[kk] = max(ctx.extra[kk])
    if tier == "thorough":
        if ctx.extra.get("enumerated", 0) != enum_total():
            ctx.extra["exhaustive"] = False
        ctx.extra["enumeration_space"] = (f"all {sum(len(S.all_shapes(n)) for n in range(2, MAX_LEAVES_ENUM + 1))} rooted "
                                          f"tree shapes with <= {MAX_LEAVES_ENUM} leaves x counts {COUNT_VALUES} per edge x "
                                          f"{len(CONFIGS)} configurations = {enum_total()} cases")
