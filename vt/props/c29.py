"""C29 — split_disjoint_nodes preserves every local tree.

Oracle (R): table-level reference.  The node map new -> original is read from the
`unsplit_node_id` metadata when it was written and otherwise inferred from the edges (bottom-up
from nodes whose origin is known, top-down when only one candidate remains).  Under that map the
squashed edge set must equal the input's (== the local tree at every position is the same), each
original node must have exactly as many images as it has disjoint pieces in the input (pieces
computed from the edge table), images are contiguous, the leftmost piece keeps the id, rows are
copied with the split flag / metadata, mutations keep site/state and sit on the piece that is
present at their position, genotypes are equal and a second application is the identity.
"""

import logging

import numpy as np
import tskit
from hypothesis import strategies as st

import tsdate
from tsdate import util

from vt.common import call, exc_key, node_is_sample
from vt.gen import ts as G
from vt.gen import util_h as H
from vt.runner import Violation

ID = "C29"
LEVEL = "exploration"
RULE = (
    "cases = generated tree sequences (simulated / built with vanishing-reappearing nodes / combs) "
    "with drawn delete_intervals(simplify=False) regions (flanks included), isolated samples, extra "
    "sites at piece boundaries, on isolated samples, before the first and beyond the last edge, and a "
    "drawn node-metadata family; non-trivial = at least one node is split (>= 2 pieces); distinct by "
    "SHA-1 of the tables"
)
ASSUMPTIONS = [
    "tskit (tables, variants, metadata codecs) trusted",
    "node map: unsplit_node_id metadata when written, else inferred from the edge tables; cases whose "
    "map cannot be inferred uniquely are discarded (counted)",
    "a mutation whose node has no edge at its position (nothing to move to) only has to stay on an "
    "image of its original node",
]
SPLIT = int(tsdate.NODE_SPLIT_BY_PREPROCESS)
KEY = "unsplit_node_id"


def budget(tier):
    if tier == "quick":
        return dict(examples=600, shards=4, time_s=2400)  # time_s: only a guard for overloaded machines
    return dict(examples=3000, shards=16)


@st.composite
def strategy_(draw, tier):
    ts, tags = draw(H.disjoint_ts(tier))
    return dict(ts=ts, tags=tags, prov=draw(st.sampled_from([None, True, False])))


def strategy(tier):
    return strategy_(tier)


def edgeless_mutation(ts):
    """F7 precondition: a mutation whose node has no edge starting at or left of its position, or a
    mutation at or beyond the right end of the last edge (or no edges at all)."""
    if ts.num_mutations == 0:
        return False
    if ts.num_edges == 0:
        return True
    first_left = np.full(ts.num_nodes, np.inf)
    np.minimum.at(first_left, ts.edges_parent, ts.edges_left)
    np.minimum.at(first_left, ts.edges_child, ts.edges_left)
    pos = ts.sites_position[ts.mutations_site]
    if np.any(first_left[ts.mutations_node] > pos):
        return True
    return bool(np.any(pos >= ts.edges_right.max()))


def infer_map(ts, out, phi):
    """Complete phi (array, -1 = unknown) for out nodes using the edge tables. Returns None on a
    contradiction-free completion failure (ambiguous), raises nothing."""
    N = ts.num_nodes
    by_child = {}
    by_parent = {}
    for l, r, p, c in zip(ts.edges_left, ts.edges_right, ts.edges_parent, ts.edges_child):
        by_child.setdefault(int(c), []).append((float(l), float(r), int(p)))
        by_parent.setdefault(int(p), []).append((float(l), float(r), int(c)))
    oe = list(zip(out.edges_left.tolist(), out.edges_right.tolist(), out.edges_parent.tolist(),
                  out.edges_child.tolist()))
    changed = True
    while changed and np.any(phi < 0):
        changed = False
        for l, r, p, c in oe:
            if phi[c] >= 0 and phi[p] < 0:
                for l2, r2, p2 in by_child.get(int(phi[c]), []):
                    if l2 <= l and r <= r2:
                        phi[p] = p2
                        changed = True
                        break
            if phi[p] >= 0 and phi[c] < 0:
                cands = {c2 for l2, r2, c2 in by_parent.get(int(phi[p]), []) if l2 <= l and r <= r2}
                # remove candidates already claimed by known siblings over this interval
                for l3, r3, p3, c3 in oe:
                    if p3 == p and c3 != c and phi[c3] >= 0 and l3 < r and l < r3:
                        cands.discard(int(phi[c3]))
                if len(cands) == 1:
                    phi[c] = cands.pop()
                    changed = True
    return phi


def check(case, ctx):
    ts = case["ts"]
    ctx.label(*case["tags"])
    is_s = node_is_sample(ts)
    pieces = H.node_pieces(ts)
    n_split = sum(1 for u in range(ts.num_nodes) if not is_s[u] and len(pieces[u]) > 1)
    many = any(len(pieces[u]) >= 3 for u in range(ts.num_nodes) if not is_s[u])
    edgeless = edgeless_mutation(ts)
    if edgeless:
        ctx.label("edgeless_mutation")
    if n_split:
        ctx.mark_nontrivial()
        ctx.label("split>=1")
    if many:
        ctx.label("node_with>=3_pieces")
    if any(is_s[u] and len(pieces[u]) > 1 for u in range(ts.num_nodes)):
        ctx.label("disjoint_sample")
    if ts.num_edges and (ts.edges_left.min() > 0 or ts.edges_right.max() < ts.sequence_length):
        ctx.label("edge_free_flank")

    class _H(logging.Handler):
        def __init__(self):
            super().__init__(level=logging.WARNING)
            self.n = 0

        def emit(self, record):
            if KEY in record.getMessage():
                self.n += 1

    h = _H()
    lg = logging.getLogger("tsdate.util")
    lg.addHandler(h)
    try:
        status, out = call(util.split_disjoint_nodes, ts, record_provenance=case["prov"])
    finally:
        lg.removeHandler(h)
    if status != "ok":
        pre = "edgeless_mutation_raised:" if edgeless else "raised:"
        return [Violation(pre + exc_key(out), f"split_disjoint_nodes raised {out!r} "
                          f"(mutation on a node without an edge at/left of its site: {edgeless})")]
    V = []
    N = ts.num_nodes
    M = out.num_nodes
    if M < N:
        return [Violation("nodes_lost", f"{N} nodes in, {M} out")]

    # ---- node map --------------------------------------------------------
    schema = ts.table_metadata_schemas.node
    split_orig = [u for u in range(N) if not is_s[u] and len(pieces[u]) > 1]
    # "where possible": the schema accepts the original metadata plus the key for every split node
    possible = True
    for u in split_orig:
        md = ts.node(u).metadata
        try:
            md = dict(md)
            md[KEY] = int(u)
            schema.validate_and_encode_row(md)
        except Exception:
            possible = False
            break
    ctx.label("md_possible" if possible else "md_impossible")
    phi = np.full(M, -1, dtype=np.int64)
    phi[:N] = np.arange(N)
    md_map = {}
    if possible and split_orig:
        for j in range(N, M):
            md = out.node(j).metadata
            if isinstance(md, dict) and KEY in md:
                md_map[j] = md[KEY]
        missing = [j for j in range(N, M) if j not in md_map]
        if missing:
            V.append(Violation("metadata_not_written", f"new node {missing[0]} lacks {KEY} although the schema accepts it"))
        for j, u in md_map.items():
            if not (isinstance(u, int) and 0 <= u < N):
                V.append(Violation("metadata_bad_id", f"node {j}: {KEY}={u!r}"))
            else:
                phi[j] = u
    phi_md = phi.copy()
    phi = infer_map(ts, out, phi)
    if np.any(phi < 0):
        # isolated new nodes (no edges) or ambiguous: cannot judge the trees
        j = int(np.flatnonzero(phi < 0)[0])
        if out.num_edges and (np.any(out.edges_parent == j) or np.any(out.edges_child == j)):
            ctx.discard("node map not inferable")
            return V
        return V + [Violation("new_node_without_edges", f"new node {j} has no edge")]
    # independent inference must agree with the metadata
    phi_inf = np.full(M, -1, dtype=np.int64)
    phi_inf[:N] = np.arange(N)
    phi_inf = infer_map(ts, out, phi_inf)
    known = (phi_inf >= 0) & (phi_md >= 0)
    if np.any(phi_inf[known] != phi_md[known]):
        j = int(np.flatnonzero(known & (phi_inf != phi_md))[0])
        V.append(Violation("metadata_wrong_origin", f"node {j}: {KEY}={phi_md[j]} but its edges are those of node {phi_inf[j]}"))
        phi = np.where(phi_inf >= 0, phi_inf, phi)

    # ---- trees equal under the map ----------------------------------------
    e_in = H.squashed_edge_set(ts.edges_left, ts.edges_right, ts.edges_parent, ts.edges_child)
    e_out = H.squashed_edge_set(out.edges_left, out.edges_right, phi[out.edges_parent], phi[out.edges_child])
    if e_in != e_out:
        d = sorted(e_in ^ e_out)[0]
        V.append(Violation("local_trees_differ", f"edge {d} is in only one of input / mapped output"))
    if out.sequence_length != ts.sequence_length:
        V.append(Violation("sequence_length", "changed"))

    # ---- contiguity, piece count, leftmost keeps id ---------------------------------
    opieces = H.node_pieces(out)
    o_is_s = node_is_sample(out)
    for j in range(M):
        if not o_is_s[j] and len(opieces[j]) > 1:
            V.append(Violation("not_contiguous", f"output node {j} still has pieces {opieces[j][:3]}"))
            break
    images = {}
    for j in range(M):
        images.setdefault(int(phi[j]), []).append(j)
    for u in range(N):
        exp = 1 if is_s[u] else max(1, len(pieces[u]))
        got = len(images.get(u, []))
        if got != exp:
            key = "split_without_gap" if got > exp else "pieces_merged"
            V.append(Violation(key, f"node {u} has {exp} disjoint piece(s) {pieces[u][:4]} but {got} image(s) {images.get(u)}"))
            break
        if not is_s[u] and pieces[u]:
            if not opieces[u] or opieces[u][0] != pieces[u][0]:
                V.append(Violation("leftmost_piece_lost_id", f"node {u}: leftmost piece {pieces[u][0]} but id {u} now covers {opieces[u][:2]}"))
                break
            got_p = sorted(opieces[j][0] for j in images[u] if opieces[j])
            if got_p != sorted(pieces[u]):
                V.append(Violation("pieces_differ", f"node {u}: pieces {pieces[u][:4]} vs images {got_p[:4]}"))
                break

    # ---- node rows ----------------------------------------------------------------
    tin, tout = ts.tables.nodes, out.tables.nodes
    split_set = set(split_orig)
    for j in range(M):
        u = int(phi[j])
        ri, ro = tin[u], tout[j]
        exp_flags = ri.flags | (SPLIT if u in split_set else 0)
        if ro.time != ri.time or ro.population != ri.population or ro.individual != ri.individual:
            V.append(Violation("row_not_copied", f"node {j} (from {u}): time/population/individual {ro.time, ro.population, ro.individual} vs {ri.time, ri.population, ri.individual}"))
            break
        if ro.flags != exp_flags:
            V.append(Violation("flags", f"node {j} (from {u}, split={u in split_set}): flags {ro.flags} expected {exp_flags}"))
            break
        if u in split_set and possible:
            exp_md = dict(ts.node(u).metadata)
            exp_md[KEY] = u
            if out.node(j).metadata != exp_md:
                V.append(Violation("metadata_content", f"node {j} (from {u}): metadata {out.node(j).metadata!r} expected {exp_md!r}"))
                break
        else:
            if ro.metadata != ri.metadata and out.node(j).metadata != ts.node(u).metadata:
                V.append(Violation("metadata_changed", f"node {j} (from {u}): metadata changed although {'not split' if u not in split_set else 'schema cannot hold the key'}"))
                break
    if out.table_metadata_schemas.node != ts.table_metadata_schemas.node:
        V.append(Violation("schema_changed", "node metadata schema changed"))
    if split_orig and not possible and h.n == 0:
        V.append(Violation("no_warning", f"{KEY} could not be written but no warning was logged"))
    if (possible or not split_orig) and h.n:
        V.append(Violation("spurious_warning", "warning although metadata could be set / nothing was split"))

    # ---- mutations ----------------------------------------------------------------
    if out.num_sites != ts.num_sites or not np.array_equal(out.sites_position, ts.sites_position):
        V.append(Violation("sites_changed", "site table positions differ"))
    elif out.num_mutations != ts.num_mutations:
        V.append(Violation("mutations_count", f"{ts.num_mutations} -> {out.num_mutations}"))
    else:
        def mset(t, mp):
            d = {}
            for m in t.mutations():
                tm = None if tskit.is_unknown_time(m.time) else m.time
                d.setdefault(m.site, []).append((int(mp[m.node]), m.derived_state, tm, repr(m.metadata)))
            return {k: sorted(v, key=repr) for k, v in d.items()}
        if mset(ts, np.arange(N)) != mset(out, phi):
            V.append(Violation("mutation_moved_to_other_node", "per-site multisets of (origin node, state, time, metadata) differ"))
        else:
            # the piece present at the position
            for m in out.mutations():
                x = out.sites_position[m.site]
                u = int(phi[m.node])
                present = any(a <= x < b for a, b in pieces[u])
                if present and not any(a <= x < b for a, b in opieces[m.node]):
                    V.append(Violation("mutation_on_absent_piece", f"mutation at {x} on node {m.node} (from {u}) whose edges span "
                                       f"{opieces[m.node][:3]} although node {u} has an edge at {x}"))
                    break
        if H.genotype_strings(ts) != H.genotype_strings(out):
            V.append(Violation("genotypes_changed", "variants differ"))

    # ---- idempotence --------------------------------------------------------------
    st2, out2 = call(util.split_disjoint_nodes, out, record_provenance=False)
    if st2 != "ok":
        V.append(Violation("second_application_raised:" + exc_key(out2), f"{out2!r}"))
    else:
        a, b = out.dump_tables(), out2.dump_tables()
        a.provenances.clear()
        b.provenances.clear()
        if not a.equals(b):
            V.append(Violation("not_idempotent", f"second application changed the tables ({out.num_nodes} -> {out2.num_nodes} nodes)"))
    return V


def describe(case):
    return dict(ts=G.ts_summary(case["ts"]), tags=case["tags"], prov=case["prov"])
