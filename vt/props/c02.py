"""C02 — dating changes only times, time metadata and unphased singleton placement.

Oracle (M, table diff): dump the input and the output TableCollection of a real date() call and
compare everything the statement lists as unchanged:

* sequence_length, sites / individuals / populations / migrations tables, reference sequence,
  top-level metadata and schema: equal (tskit table equality = all columns, bytes, schemas);
* nodes: row count, flags, population, individual bytewise; metadata compared per row id with the
  mn/vr keys removed after decoding (raw bytes when there is no schema / it does not decode to a
  dict); the schema may only change where C32's policy installs the default one
  (no schema + no metadata, or set_metadata=True on a table that cannot encode mn/vr: clearing
  there is C32's business and is skipped here, labelled);
* edges: multiset of (left, right, parent, child, metadata bytes) + schema (sort may permute rows);
* mutations: per SITE multiset of (node, derived_state, metadata-without-mn/vr): tskit's sort
  permutes the rows of a multi-mutation site once times are written, row ids are not preserved
  and the statement does not ask for that. With singletons_phased=False a mutation sitting on a
  node of a diploid individual may move to that individual's other node only: both sides are
  canonicalised to ("ind", individual) for such nodes.

node/mutation times, mutation parents, mn/vr, time_units and provenance (C33) are not compared.
"""

from collections import Counter

import numpy as np
import tskit
from hypothesis import strategies as st

import tsdate

from vt.common import call, exc_key
from vt.gen import meta_b as MB
from vt.gen import ts as G
from vt.runner import Violation

import logging

_log = logging.getLogger("tsdate")
_log.addHandler(logging.NullHandler())
_log.propagate = False  # "could not set metadata" warnings are C32's subject, not noise for stderr

ID = "C02"
LEVEL = "exploration"
RULE = (
    "cases = generated tree sequence (simulated/built, polytomies, unsquashed edges, finite sites) "
    "decorated with drawn node/mutation metadata families (14), populations, individuals, migrations, "
    "site/edge/top-level metadata, provenance, reference sequence x method x set_metadata x "
    "singletons_phased; non-trivial = >= 2 trees and >= 1 non-empty node or mutation metadata column "
    "and the date() call succeeded; distinct by SHA-1 of the case"
)
ASSUMPTIONS = [
    "discrete methods get contemporaneous, single-root, unary-free inputs with population_size and EMPTY edge "
    "metadata (non-empty edge metadata => LibraryError from tskit simplify in the prior code: C35 finding candidate)",
    "singletons_phased=False only with diploid contemporary individuals (others are rejected by tsdate)",
    "rescaling_intervals=0 in most cases (F2); AssertionError of F8 / other internal errors are C35's: discarded",
    "where set_metadata=True clears an incompatible table (C32) the other metadata fields of that table are not compared",
    "tskit table equality and metadata codecs trusted",
]


def budget(tier):
    if tier == "quick":
        return dict(examples=90, shards=4)
    return dict(examples=700, shards=16)


METHODS = ["variational_gamma", "variational_gamma", "inside_outside", "maximization"]


@st.composite
def strategy_(draw, tier):
    method = draw(st.sampled_from(METHODS))
    unphased = method == "variational_gamma" and draw(st.integers(0, 2)) == 0
    discrete = method != "variational_gamma"
    if discrete or unphased:
        contemporaneous, single_root = True, True
    else:
        contemporaneous, single_root = draw(st.booleans()), draw(st.integers(0, 3)) > 0
    ts = draw(G.general_ts(tier=tier, contemporaneous=contemporaneous, single_root=single_root, min_muts=1))
    if draw(st.integers(0, 2)) == 0:
        ts = MB.split_edges(ts, draw(st.lists(st.integers(0, 1000), min_size=1, max_size=3)))
    node_family = draw(st.sampled_from(MB.ALL_FAMILIES))
    mut_family = draw(st.sampled_from(MB.ALL_FAMILIES))
    npop = draw(st.sampled_from([0, 1, 2, 3]))
    if unphased:
        pattern = (2,)
    else:
        pattern = draw(st.sampled_from([(), (2,), (1,), (1, 2), (3,), (2, 0, 1)]))
    case = dict(
        ts=ts, method=method, unphased=unphased, node_family=node_family, mut_family=mut_family,
        npop=npop, pattern=pattern,
        # migration records, like non-empty edge metadata, make tskit's simplify inside the discrete
        # methods' prior construction raise LibraryError (C35 finding candidate): variational only
        migrations=draw(st.sampled_from([0, 2])) if not discrete else 0,
        extra=draw(st.integers(0, 3)) > 0, tag=draw(st.integers(0, 5)),
        set_metadata=draw(st.sampled_from([None, None, False, True])),
        mu=10.0 ** draw(st.integers(-4, 0)),
        time_units=draw(st.sampled_from([None, "years"])),
        rescale=draw(st.integers(0, 5)) == 0,
        constr=draw(st.sampled_from([None, None, 0, 3])),
    )
    return case


def strategy(tier):
    return strategy_(tier)


def build_input(case):
    return MB.decorate_b(case["ts"], case["node_family"], case["mut_family"], populations=case["npop"],
                         ind_pattern=case["pattern"], drop_incomplete=case["unphased"], extra=case["extra"],
                         migrations=case["migrations"], tag=case["tag"],
                         edge_md=case["method"] == "variational_gamma")


def _schema_bytes(table):
    return repr(table.metadata_schema)


def compare_metadata(name, tin, tout, set_metadata, ctx, out):
    """Returns per-row 'other fields' lists (in, out) or None if not comparable (C32 clearing)."""
    same_schema = tin.metadata_schema == tout.metadata_schema
    if not same_schema:
        had_nothing = (tin.metadata_schema.schema is None and len(tin.metadata) == 0
                       and set_metadata is not False)
        cleared_ok = set_metadata is True and not MB.can_encode(tin)
        if had_nothing:
            ctx.label(f"{name}:default_schema_installed")
        elif cleared_ok:
            ctx.label(f"{name}:cleared_by_set_metadata_True(C32)")
            return None
        else:
            out.append(Violation(f"{name}:schema_changed", f"{name} metadata schema changed although the table had "
                                 f"a schema/metadata and set_metadata={set_metadata}"))
            return None
    rin = [MB.other_fields(tin.metadata_schema, r) for r in MB.raw_rows(tin)]
    rout = [MB.other_fields(tout.metadata_schema, r) for r in MB.raw_rows(tout)]
    if not same_schema:
        # input had neither schema nor metadata: "other fields" of the input are empty
        rin = [("dict", MB.canon({})) for _ in rin]
    return rin, rout


def check(case, ctx):
    method = case["method"]
    ts = build_input(case)
    out = []
    ctx.label("method=" + method, "node_md=" + case["node_family"], "mut_md=" + case["mut_family"],
              f"set_metadata={case['set_metadata']}")
    kw = dict(mutation_rate=case["mu"], method=method, set_metadata=case["set_metadata"],
              time_units=case["time_units"], constr_iterations=case["constr"])
    if method == "variational_gamma":
        kw.update(max_iterations=3)
        if not case["rescale"]:
            kw.update(rescaling_intervals=0)
        else:
            ctx.label("rescaling_on")
        if case["unphased"]:
            kw.update(singletons_phased=False)
            ctx.label("unphased")
    else:
        kw.update(population_size=100.0)
    status, res = call(tsdate.date, ts, **kw)
    if status == "rejected":
        ctx.discard("rejected:" + str(res)[:40])
        return []
    if status == "internal":
        ctx.discard("internal:" + exc_key(res))
        return []
    dts = res
    tin, tout = ts.dump_tables(), dts.dump_tables()
    nonempty_md = len(tin.nodes.metadata) > 0 or len(tin.mutations.metadata) > 0
    if ts.num_trees >= 2 and nonempty_md:
        ctx.mark_nontrivial()
    if ts.num_trees >= 2:
        ctx.label("trees>=2")
    if np.any(np.bincount(ts.mutations_site, minlength=1) > 1):
        ctx.label("multi_mutation_site")
    if ts.num_individuals:
        ctx.label("individuals")
    if ts.num_migrations:
        ctx.label("migrations")

    # ---- scalars and whole tables -----------------------------------------
    if tin.sequence_length != tout.sequence_length:
        out.append(Violation("sequence_length_changed", f"{tin.sequence_length!r} -> {tout.sequence_length!r}"))
    for name in ("sites", "individuals", "populations", "migrations"):
        a, b = getattr(tin, name), getattr(tout, name)
        if a != b:
            out.append(Violation(f"{name}_table_changed", f"{name} table differs ({a.num_rows} -> {b.num_rows} rows)"))
    if not tin.reference_sequence.equals(tout.reference_sequence):
        out.append(Violation("reference_sequence_changed", "reference sequence differs"))
    if tin.metadata_bytes != tout.metadata_bytes or tin.metadata_schema != tout.metadata_schema:
        out.append(Violation("toplevel_metadata_changed", "top-level metadata or schema differs"))

    # ---- nodes ---------------------------------------------------------------
    if tin.nodes.num_rows != tout.nodes.num_rows:
        out.append(Violation("nodes:count_changed", f"{tin.nodes.num_rows} -> {tout.nodes.num_rows} nodes"))
        return out
    for col in ("flags", "population", "individual"):
        a, b = getattr(tin.nodes, col), getattr(tout.nodes, col)
        if not np.array_equal(a, b):
            u = int(np.flatnonzero(a != b)[0])
            out.append(Violation(f"nodes:{col}_changed", f"node {u}: {col} {a[u]} -> {b[u]}"))
    cmp_nodes = compare_metadata("nodes", tin.nodes, tout.nodes, case["set_metadata"], ctx, out)
    if cmp_nodes is not None:
        rin, rout = cmp_nodes
        bad = [u for u in range(len(rin)) if rin[u] != rout[u]]
        if bad:
            out.append(Violation("nodes:other_metadata_changed",
                                 f"node {bad[0]}: metadata apart from mn/vr {rin[bad[0]]} -> {rout[bad[0]]}",
                                 n_bad=len(bad)))

    # ---- edges ---------------------------------------------------------------
    def edge_multiset(t):
        raw = MB.raw_rows(t.edges)
        return Counter(zip(t.edges.left.tolist(), t.edges.right.tolist(), t.edges.parent.tolist(),
                           t.edges.child.tolist(), raw))
    if tin.edges.metadata_schema != tout.edges.metadata_schema:
        out.append(Violation("edges:schema_changed", "edge metadata schema differs"))
    ein, eout = edge_multiset(tin), edge_multiset(tout)
    if ein != eout:
        miss = list((ein - eout).items())[:2]
        extra = list((eout - ein).items())[:2]
        out.append(Violation("edges:set_changed", f"edge multiset differs: missing {miss}, new {extra} "
                             f"({tin.edges.num_rows} -> {tout.edges.num_rows} rows)"))

    # ---- mutations -------------------------------------------------------------
    if tin.mutations.num_rows != tout.mutations.num_rows:
        out.append(Violation("mutations:count_changed", f"{tin.mutations.num_rows} -> {tout.mutations.num_rows}"))
        return out
    cmp_muts = compare_metadata("mutations", tin.mutations, tout.mutations, case["set_metadata"], ctx, out)
    ind = tin.nodes.individual
    ind_sizes = np.bincount(ind[ind >= 0], minlength=max(1, tin.individuals.num_rows))

    def node_key(u):
        if case["unphased"] and ind[u] != tskit.NULL and ind_sizes[ind[u]] == 2:
            return ("ind", int(ind[u]))
        return ("node", int(u))

    def mut_multiset(t, other):
        ds = tskit.unpack_bytes(t.mutations.derived_state, t.mutations.derived_state_offset)
        per_site = {}
        for i in range(t.mutations.num_rows):
            md = other[i] if other is not None else None
            per_site.setdefault(int(t.mutations.site[i]), Counter())[(node_key(int(t.mutations.node[i])), ds[i], md)] += 1
        return per_site

    min_, mout = (mut_multiset(tin, cmp_muts[0] if cmp_muts else None),
                  mut_multiset(tout, cmp_muts[1] if cmp_muts else None))
    if min_ != mout:
        site = next(s for s in sorted(set(min_) | set(mout)) if min_.get(s) != mout.get(s))
        a, b = min_.get(site, Counter()), mout.get(site, Counter())
        lost, new = list((a - b).items())[:2], list((b - a).items())[:2]
        # classify the root cause
        def proj(c, idx):
            r = Counter()
            for k, v in c.items():
                r[tuple(k[j] for j in idx)] += v
            return r
        if sum(a.values()) != sum(b.values()):
            kind = "count_per_site_changed"
        elif proj(a, (0,)) != proj(b, (0,)):
            kind = "node_changed"
        elif proj(a, (0, 1)) != proj(b, (0, 1)):
            kind = "derived_state_changed"
        else:
            kind = "other_metadata_changed"
        out.append(Violation(f"mutations:{kind}", f"site {site} (position {tin.sites.position[site] if site < tin.sites.num_rows else '?'}): "
                             f"rows lost {lost}, rows new {new}"))
    if case["unphased"]:
        pos_in = sorted(zip(tin.sites.position[tin.mutations.site].tolist(), tin.mutations.node.tolist()))
        pos_out = sorted(zip(tout.sites.position[tout.mutations.site].tolist(), tout.mutations.node.tolist()))
        if pos_in != pos_out:
            ctx.label("unphased:node_moved")
    return out


def describe(case):
    return dict(method=case["method"], unphased=case["unphased"], node_md=case["node_family"],
                mut_md=case["mut_family"], set_metadata=case["set_metadata"], npop=case["npop"],
                pattern=list(case["pattern"]), ts=G.ts_summary(case["ts"]))
