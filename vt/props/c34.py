"""C34 — the command-line interface is faithful to the Python API.

Oracle (M, differential): the argv vector is generated from the parser's own option table
(every option, every alias, `--opt value` / `--opt=value` / `-oVALUE` forms, repeated options,
boolean options with True/False/true/false/0/1) and interpreted by an independent model
(vt.gen.cfg_i.API_TABLE, written from the help texts) into "the corresponding Python call".
`cli.tsdate_main(argv)` runs in-process on a scratch file; the Python API runs with the same values.

  * API returns          -> the CLI must return, the output file must load and its tables must
                            equal the API result (provenance: same records, last record equal apart
                            from `resources`/timestamp); every value given on the command line that
                            the API records in provenance must appear there with the value given.
  * API raises / argv does not parse / deprecated positional / unreadable input
                         -> SystemExit with a non-zero status or an exception, and no output file.
"""

import contextlib
import io
import json
import logging
import os
import shutil
import tempfile
import warnings

import numpy as np
import tskit
from hypothesis import strategies as st

import tsdate
from tsdate import cli

from vt.common import call, exc_key
from vt.gen import cfg_i as C
from vt.gen import ts as G
from vt.gen import ts_i as TI
from vt.runner import Violation

ID = "C34"
LEVEL = "exploration"
RULE = (
    "cases = (subcommand, small tree-sequence file, argv built from the real parser's option table: "
    "each option with drawn alias/value/form, 20 % unconstrained combinations incl. unparseable values, "
    "bad methods, deprecated positional, unreadable input); non-trivial = at least one option given and "
    "either CLI output compared with the API result or an invalid combination checked for exit status "
    "and absence of output; distinct by SHA-1 of (file contents, argv)"
)
ASSUMPTIONS = [
    "the 'corresponding Python call' passes exactly the options given on the command line (parser dest "
    "-> API keyword per vt.gen.cfg_i.API_TABLE) and leaves everything else at the API default; "
    "`progress` None and False are identified (documented: None treated as False)",
    "boolean option words True/true/1 mean on and False/false/0 mean off",
    "an API failure with an internal error (e.g. known defect F2, AssertionError in rescaling) belongs "
    "to C35: such cases are discarded here when the CLI fails the same way",
    "CLI and API run in the same process on the same file: bit-identical results are expected",
]

SCRATCH = os.environ.get("VT_SCRATCH") or tempfile.gettempdir()


def budget(tier):
    if tier == "quick":
        return dict(examples=220, shards=4, min_nontrivial=150)
    return dict(examples=2000, shards=16, min_nontrivial=2000)


# --------------------------------------------------------------------------
# strategy
# --------------------------------------------------------------------------


def thin_sites(ts, lo, hi):
    """delete the sites in [lo*L, hi*L): makes flanks / gaps without data"""
    L = ts.sequence_length
    a, b = sorted([lo * L, hi * L])
    ids = [s.id for s in ts.sites() if a <= s.position < b]
    if not ids or len(ids) == ts.num_sites:
        return ts
    return ts.delete_sites(ids, record_provenance=False)


@st.composite
def strategy_(draw, tier):
    sub = draw(st.sampled_from(["date", "date", "preprocess"]))
    if sub == "date":
        if draw(st.integers(0, 9)) == 3:
            ts, _ = draw(TI.everything_ts(tier))
        else:
            ts = draw(TI.nice_ts(tier))
    else:
        ts = draw(TI.base_ts(tier=tier, contemporaneous=draw(st.booleans()), single_root=draw(st.booleans()),
                             min_muts=4, max_n=8, max_trees=8, sim_in=(2 if tier == "thorough" else 4)))
        for _ in range(draw(st.integers(0, 2))):
            ts = thin_sites(ts, draw(st.sampled_from([0.0, 0.0, 0.3, 0.5, 0.7])),
                            draw(st.sampled_from([0.2, 0.4, 0.6, 1.0, 1.0])))
        if draw(st.integers(0, 3)) == 0:
            ts = G.scale_coords(ts, draw(st.sampled_from([8.0, 1024.0])))
    opts = draw(C.argv_options(sub))
    extra = None
    if sub == "date" and draw(st.integers(0, 29)) == 7:
        extra = draw(st.sampled_from(["100", "1e4", "1"]))
    return dict(sub=sub, ts=ts, opts=opts, extra_positional=extra, positional_first=draw(st.booleans()),
                badfile=draw(st.integers(0, 39)) == 11)


def strategy(tier):
    return strategy_(tier)


# --------------------------------------------------------------------------
# independent interpretation of the argv vector
# --------------------------------------------------------------------------

DATE_METHODS = ("inside_outside", "maximization", "variational_gamma")  # help text of --method


def interpret(sub, opts):
    """-> (parse_error or None, api kwargs, {dest: value given}, verbosity)"""
    model = C.API_TABLE[sub]
    given = {}
    verbosity = 0
    for dest, alias, val, _joined in opts:
        api, kind = model[dest]
        try:
            if kind == "flag":
                v = True
            elif kind == "count":
                verbosity += 2 if alias == "-vv" else 1
                continue
            elif kind == "float":
                v = float(val)
            elif kind == "int":
                v = int(val)
            elif kind == "bool":
                if val not in C.BOOL_WORDS:
                    return f"bad boolean {val!r}", {}, {}, 0
                v = C.BOOL_WORDS[val]
            else:
                v = val
        except ValueError:
            return f"unparseable {kind} for {dest}", {}, {}, 0
        if dest == "method" and v not in DATE_METHODS:
            return "unknown method", {}, {}, 0
        given[dest] = v
    kwargs = {model[d][0]: v for d, v in given.items()}
    if sub == "date":
        kwargs.setdefault("mutation_rate", None)  # required keyword of date(); the CLI default is None
    return None, kwargs, given, verbosity


# --------------------------------------------------------------------------
# running both sides
# --------------------------------------------------------------------------


@contextlib.contextmanager
def quiet():
    root = logging.getLogger()
    handlers, level = list(root.handlers), root.level
    prev_disable = logging.root.manager.disable
    logging.disable(logging.CRITICAL)
    with warnings.catch_warnings(), np.errstate(all="ignore"):
        warnings.simplefilter("ignore")
        with contextlib.redirect_stderr(io.StringIO()), contextlib.redirect_stdout(io.StringIO()):
            try:
                yield
            finally:
                logging.disable(prev_disable)
                for h in list(root.handlers):  # the CLI's logging.basicConfig() installs a handler
                    if h not in handlers:
                        root.removeHandler(h)
                root.setLevel(level)


def run_cli(argv):
    with quiet():
        try:
            cli.tsdate_main(argv)
            return "ok", None
        except SystemExit as e:
            return "exit", e.code
        except Exception as e:  # noqa: BLE001
            return "exception", e


def run_api(sub, ts, kwargs):
    fn = tsdate.date if sub == "date" else tsdate.preprocess_ts
    with quiet():
        try:
            return "ok", fn(ts, **kwargs)
        except Exception as e:  # noqa: BLE001
            return "raised", e


def failed(status, val):
    """CLI ended with an error: exception, or SystemExit with a non-zero status"""
    if status == "exception":
        return True
    return status == "exit" and val not in (0, None)


def msg_key(e):
    m = "".join("#" if ch.isdigit() else ch for ch in str(e).strip().split("\n")[0])[:50]
    return f"{type(e).__name__}:{m}"


def norm_params(p):
    p = dict(p)
    if p.get("progress") is None and "progress" in p:
        p["progress"] = False
    return p


def last_record(ts):
    return json.loads(ts.provenance(ts.num_provenances - 1).record)


def jsonish(v):
    return json.loads(json.dumps(v))


def compare_outputs(sub, out_ts, api_ts):
    """-> list of (what) differences, ignoring provenance resources/timestamps"""
    diffs = []
    t1, t2 = out_ts.dump_tables(), api_ts.dump_tables()
    if not t1.equals(t2, ignore_provenance=True):
        for name in ("nodes", "edges", "sites", "mutations", "individuals", "populations", "migrations"):
            if getattr(t1, name) != getattr(t2, name):
                diffs.append(name)
        if not diffs:
            diffs.append("toplevel")
    if out_ts.num_provenances != api_ts.num_provenances:
        diffs.append("provenance_count")
    else:
        n = out_ts.num_provenances
        for i in range(n - 1):
            if out_ts.provenance(i).record != api_ts.provenance(i).record:
                diffs.append("earlier_provenance")
                break
        if n > 0:
            r1, r2 = last_record(out_ts), last_record(api_ts)
            for k in sorted(set(r1) | set(r2)):
                if k == "resources":
                    continue
                a, b = r1.get(k), r2.get(k)
                if k == "parameters":
                    a, b = norm_params(a or {}), norm_params(b or {})
                if a != b:
                    diffs.append("provenance_" + k)
    return diffs


def check(case, ctx):
    sub = case["sub"]
    ts = case["ts"]
    tmp = tempfile.mkdtemp(prefix="vt_c34_", dir=SCRATCH)
    try:
        return _check(case, ctx, sub, ts, tmp)
    finally:
        shutil.rmtree(tmp, ignore_errors=True)


def _check(case, ctx, sub, ts, tmp):
    infile = os.path.join(tmp, "in.trees")
    outfile = os.path.join(tmp, "out.trees")
    if case["badfile"]:
        with open(infile, "w") as f:
            f.write("this is not a tree sequence file\n")
    else:
        ts.dump(infile)
    opts = [tuple(o) for o in case["opts"]]
    argv = C.render_argv(sub, infile, outfile, opts, case["extra_positional"], case["positional_first"])
    shown = " ".join(a if a not in (infile, outfile) else os.path.basename(a) for a in argv)
    ctx.label("sub=" + sub)
    model = C.API_TABLE[sub]
    unknown = [d for d, _, _ in C.cached_option_table(sub) if d not in model]
    for d in unknown:
        ctx.label("parser_option_not_modelled:" + d)
    for dest, alias, val, joined in opts:
        ctx.label(f"opt:{sub}:{dest}")
        ctx.label(f"alias:{alias}")
        if model[dest][1] == "bool":
            ctx.label(f"bool:{dest}={val}")
        if val is not None:
            ctx.label("form=joined" if joined else "form=separate")
    parse_error, kwargs, given, verbosity = interpret(sub, opts)
    if verbosity:
        ctx.label(f"verbosity={min(verbosity, 3)}")

    status, val = run_cli(argv)
    wrote = os.path.exists(outfile)
    out = []

    # ---- invalid by construction --------------------------------------
    reason = None
    if parse_error:
        reason = "unparseable_argv"
    elif case["extra_positional"] is not None:
        reason = "deprecated_positional"
    elif case["badfile"]:
        reason = "unreadable_input"
    if reason:
        ctx.label("class=invalid:" + reason)
        ctx.mark_nontrivial()
        if not failed(status, val):
            out.append(Violation(f"invalid_accepted:{sub}:{reason}", f"`tsdate {shown}` ({parse_error or reason}) "
                                 f"ended with status {status}/{val!r}"))
        if wrote:
            out.append(Violation(f"output_written_on_error:{sub}:{reason}", f"`tsdate {shown}` wrote an output file"))
        return out

    # ---- the corresponding Python call --------------------------------
    in_ts = tskit.load(infile)
    a_status, a_val = run_api(sub, in_ts, kwargs)
    if a_status == "raised":
        clean = type(a_val) in (ValueError, NotImplementedError, TypeError)
        ctx.label("class=api_rejects" if clean else "class=api_internal_error")
        ctx.label("api_raises:" + msg_key(a_val))
        if failed(status, val):
            if wrote:
                return [Violation(f"output_written_on_error:{sub}:{msg_key(a_val)}",
                                  f"`tsdate {shown}` failed but left an output file")]
            if not clean:
                ctx.discard("api_internal_error:" + exc_key(a_val))
                return []
            if opts:
                ctx.mark_nontrivial()
            return []
        return [Violation(f"api_rejects_cli_accepts:{sub}:{msg_key(a_val)}",
                          f"`tsdate {shown}` ended with status {status}/{val!r} and "
                          f"{'wrote' if wrote else 'did not write'} output, but the Python call "
                          f"{'date' if sub == 'date' else 'preprocess_ts'}(ts, **{kwargs!r}) raises {a_val!r}")]

    # ---- API returned: CLI must have produced the same tree sequence -----
    ctx.label("class=valid")
    if failed(status, val) or not wrote:
        detail = val if status == "exit" else repr(val)
        k = exc_key(val) if status == "exception" else "exit:" + "".join(
            "#" if c.isdigit() else c for c in str(val).split(": ", 1)[-1])[:50]
        return [Violation(f"valid_rejected:{sub}:{k}",
                          f"`tsdate {shown}` ended with {status} {detail!s:.200} (output written: {wrote}) but the "
                          f"Python call with {kwargs!r} returns a tree sequence")]
    try:
        out_ts = tskit.load(outfile)
    except Exception as e:  # noqa: BLE001
        return [Violation(f"output_unreadable:{sub}", f"`tsdate {shown}`: {e!r}")]
    if opts:
        ctx.mark_nontrivial()

    # every given value the API records must be in the provenance of the CLI's output
    culprits = {}
    params = last_record(out_ts).get("parameters", {}) if out_ts.num_provenances else {}
    cmd = params.get("command")
    for dest, v in given.items():
        api = model[dest][0]
        if api is None:
            continue
        if api == "method":
            if cmd != v:
                culprits[dest] = (v, cmd)
            continue
        if api in params:
            got = params[api]
            want = jsonish(v)
            if api == "progress":
                got, want = bool(got), bool(want)
            if got != want and not (isinstance(want, float) and want != want):
                culprits[dest] = (v, params[api])
        elif sub == "preprocess":
            culprits[dest] = (v, "<absent>")
    for dest, (want, got) in sorted(culprits.items()):
        ctx.label(f"not_reaching:{sub}:{dest}")
        out.append(Violation(f"value_not_reaching_api:{sub}:{dest}",
                             f"`tsdate {shown}`: the provenance of the output records "
                             f"{model[dest][0]}={got!r} but the command line gave {want!r}"))
    ref_ts = a_val
    if culprits:
        # what the CLI effectively ran: re-run the API with the recorded values of the culprit options so
        # that any *other* difference still surfaces
        eff = dict(kwargs)
        for dest, (want, got) in culprits.items():
            api = model[dest][0]
            if got == "<absent>":
                eff.pop(api, None)
            else:
                eff[api] = got
        s2, ref2 = run_api(sub, in_ts, eff)
        if s2 != "ok":
            return out
        ref_ts = ref2
    diffs = compare_outputs(sub, out_ts, ref_ts)
    if diffs:
        ctx.label("output_differs")
        out.append(Violation(f"output_differs:{sub}:{'+'.join(diffs[:3])}",
                             f"`tsdate {shown}` wrote a tree sequence that differs from the Python call with "
                             f"{kwargs!r} in: {diffs}"))
    else:
        ctx.label("outputs_equal")
    return out


def describe(case):
    argv = C.render_argv(case["sub"], "in.trees", "out.trees", [tuple(o) for o in case["opts"]],
                         case["extra_positional"], case["positional_first"])
    return dict(argv=" ".join(argv), badfile=case["badfile"], ts=G.ts_summary(case["ts"]))
