"""C22 — unphased singleton handling only re-phases singletons and ignores input phase.

Oracle:
(I) with singletons_phased=False an output mutation's node differs from its input node only
    if the input node belongs to a 2-node contemporary individual, and then it is that
    individual's other node; with singletons_phased=True no mutation node changes. Mutations
    are matched by a unique derived-state label (tskit's sort may permute rows of a site).
(M) X' = X with a drawn subset of the singletons moved to their individual's other node.
    date(X, singletons_phased=False) and date(X', ...) agree on node times, node and mutation
    posterior moments (metadata and fit), mutation times and output mutation nodes (matched by
    label = by (site, individual)); mutations whose fitted phase is within 1e-9 of 0.5 are
    exempt from the node comparison.

Tolerance: 1e-9 relative. X and X' have identical mutation ids (see vt.gen.phase_c.rebuild), so
the same IEEE operations are performed and equality is in fact bit-exact on the unchanged tree
(calibration: 4 x 1000 cases, 0 pairs differing at all — label `bit_identical`); the tolerance
only leaves room for a legitimate reordering of the per-edge sums in a future refactor.
"""

import numpy as np
import tskit
from hypothesis import strategies as st

import tsdate

from vt.common import call, exc_key, node_metadata_mn_vr, rel_err
from vt.gen import phase_c as P
from vt.gen import ts as G
from vt.runner import Violation

ID = "C22"
LEVEL = "exploration"
RULE = (
    "cases = (contemporaneous single-rooted tree sequence: simulated/built, recombining, polytomies, "
    "finite-sites and stacked mutations; samples grouped into diploid individuals on all or some samples; "
    "0..12 drawn extra mutations on leaf edges) x drawn re-phasing (each singleton moved w.p. 1/2) x "
    "configuration (mu, EP iterations, rescaling_intervals in {0,5,1000}, both rescaling targets, root "
    "regularisation); plus malformed individual patterns (haploid/triploid/historical) for the rejection path; "
    "non-trivial = >= 1 singleton moved by the re-phasing and >= 1 singleton switched by tsdate; "
    "distinct by SHA-1 of (tables, flips, configuration)"
)
ASSUMPTIONS = [
    "'singleton' = tsdate's notion: any mutation on a node that belongs to an individual (phasing._block_singletons)",
    "inputs have no missing data / isolated sample nodes: a locally isolated node of a diploid individual makes "
    "block_singletons/reallocate_unphased assert (known defect F8, property C35); such internal errors are discarded",
    "input mutation times are unknown and a tree sequence and its re-phasing share mutation ids and table order "
    "(row-order invariance is C08/C11's subject)",
    "a case where either run raises 'Use fewer rescaling intervals' (F2) is discarded",
    "numpy/tskit/msprime trusted",
]
TOL = 1e-9


def budget(tier):
    if tier == "quick":
        return dict(examples=150, shards=4)
    return dict(examples=1000, shards=16)


@st.composite
def strategy_(draw, tier):
    bad = draw(st.integers(0, 9)) == 0
    pattern = draw(st.sampled_from([[1], [3], [2, 1], [2, 3, 2], None])) if bad else None
    # malformed: haploid/triploid individuals, or (pattern None) diploids that may be historical
    ts = draw(P.diploid_ts(tier, pattern=pattern, contemporaneous=not (bad and pattern is None)))
    n_sing = len(P.singleton_ids(ts))
    flips = draw(st.lists(st.booleans(), min_size=max(1, n_sing), max_size=max(1, n_sing)))
    cfg = dict(
        mu=draw(st.sampled_from([1e-3, 1e-2, 0.1, 1.0])),
        max_iterations=draw(st.sampled_from([1, 3, 10])),
        rescaling_intervals=draw(st.sampled_from([0, 5, 1000])),
        rescaling_iterations=draw(st.sampled_from([1, 5])),
        match_segregating_sites=draw(st.booleans()),
        regularise_roots=draw(st.sampled_from([True, True, False])),
    )
    return dict(ts=ts, flips=flips, cfg=cfg)


def strategy(tier):
    return strategy_(tier)


def _date(ts, cfg, phased):
    return tsdate.date(ts, mutation_rate=cfg["mu"], method="variational_gamma", singletons_phased=phased,
                       max_iterations=cfg["max_iterations"], rescaling_intervals=cfg["rescaling_intervals"],
                       rescaling_iterations=cfg["rescaling_iterations"],
                       match_segregating_sites=cfg["match_segregating_sites"],
                       regularise_roots=cfg["regularise_roots"], return_fit=True)


def _is_f2(e):
    return isinstance(e, AssertionError) and "Use fewer rescaling intervals" in str(e)


def check_nodes(ts, dts, phased, other):
    """clause (I): returns list of violations"""
    out = []
    lab_in = {m.derived_state: m for m in ts.mutations()}
    lab_out = {m.derived_state: m for m in dts.mutations()}
    if set(lab_in) != set(lab_out) or dts.num_mutations != ts.num_mutations:
        return [Violation("mutations_lost_or_duplicated", f"phased={phased}: output mutation labels differ from input")]
    pos_in, pos_out = ts.sites_position, dts.sites_position
    for lab, mi in lab_in.items():
        mo = lab_out[lab]
        if pos_in[mi.site] != pos_out[mo.site]:
            out.append(Violation("mutation_changed_site", f"mutation {lab} moved from {pos_in[mi.site]} to {pos_out[mo.site]}"))
            break
        if mo.node == mi.node:
            continue
        if phased:
            out.append(Violation("phased:node_changed", f"singletons_phased=True but mutation {lab} moved from node "
                                 f"{mi.node} to {mo.node}"))
            break
        if other[mi.node] == tskit.NULL:
            out.append(Violation("unphased:non_individual_mutation_moved",
                                 f"mutation {lab} on node {mi.node} (not a node of a diploid individual) moved to {mo.node}"))
            break
        if mo.node != other[mi.node]:
            out.append(Violation("unphased:moved_off_individual",
                                 f"mutation {lab} on node {mi.node} moved to {mo.node}, not to the individual's other node "
                                 f"{other[mi.node]}"))
            break
    return out


def observables(ts_in, dts, fit):
    """per input-mutation-id / per node arrays"""
    lab_out = P.by_label(dts)
    order = np.array([lab_out[m.derived_state] for m in ts_in.mutations()], dtype=int)
    mn, vr = node_metadata_mn_vr(dts)
    mmn = np.full(dts.num_mutations, np.nan)
    mvr = np.full(dts.num_mutations, np.nan)
    for m in dts.mutations():
        md = m.metadata
        if isinstance(md, dict):
            mmn[m.id] = md.get("mn", np.nan)
            mvr[m.id] = md.get("vr", np.nan)
    post = fit.node_posteriors()
    mpost = fit.mutation_posteriors()
    return dict(
        nodes_time=dts.nodes_time,
        node_md_mn=mn, node_md_vr=vr,
        mutations_time=dts.mutations_time[order],
        mut_md_mn=mmn[order], mut_md_vr=mvr[order],
        fit_node_mn=np.asarray(post["mean"]), fit_node_vr=np.asarray(post["variance"]),
        fit_mut_mn=np.asarray(mpost["mean"]), fit_mut_vr=np.asarray(mpost["variance"]),
        mutations_node=dts.mutations_node[order].astype(float),
    )


def check(case, ctx):
    ts, flips, cfg = case["ts"], case["flips"], case["cfg"]
    out = []
    other = P.other_node_map(ts)
    sing = P.singleton_ids(ts)
    ctx.label(f"rescaling_intervals={cfg['rescaling_intervals']}",
              "singletons=0" if len(sing) == 0 else "singletons=1-3" if len(sing) <= 3 else "singletons>=4")
    if ts.num_sites < ts.num_mutations:
        ctx.label("multi_mutation_sites")
    if np.any(ts.nodes_individual[ts.samples()] == tskit.NULL):
        ctx.label("some_samples_without_individual")
    malformed = any(len(ind.nodes) != 2 or np.any(ts.nodes_time[ind.nodes] != 0) for ind in ts.individuals())
    if not G.is_contemporaneous(ts):
        ctx.label("historical_samples")

    # singletons_phased=True: accepted whatever the individuals look like; nodes never change
    sp, rp = call(_date, ts, cfg, True)
    if sp == "ok":
        out += check_nodes(ts, rp[0], True, other)
    elif not _is_f2(rp):
        ctx.discard("phased_run_" + sp + ":" + exc_key(rp))

    su, ru = call(_date, ts, cfg, False)
    if malformed:
        ctx.label("malformed_individuals")
        if su == "rejected":
            ctx.discard("expected_rejection:" + str(ru)[:50])
        elif su == "ok":
            # accepted although not diploid: clause (I) still binds
            out += check_nodes(ts, ru[0], False, other)
        else:
            ctx.discard("internal:" + exc_key(ru))
        return out
    ts2, moved = P.rephase(ts, flips)
    su2, ru2 = call(_date, ts2, cfg, False)
    if su != "ok" or su2 != "ok":
        if (su != "ok" and _is_f2(ru)) or (su2 != "ok" and _is_f2(ru2)):
            ctx.discard("F2:use_fewer_rescaling_intervals")
            return out
        if su != "ok" and su2 != "ok":
            ctx.discard("both_runs_" + su + ":" + exc_key(ru))
            return out
        bad = ru if su != "ok" else ru2
        out.append(Violation("rephase:outcome_differs:" + exc_key(bad),
                             f"one phasing of the input returns, the other raises {bad!r}"))
        return out
    (d1, f1), (d2, f2) = ru, ru2
    # non-triviality is decided before judging (the runner's too-few-cases test precedes its verdict)
    switched = sum(sorted((m.derived_state, m.node) for m in a.mutations()) !=
                   sorted((m.derived_state, m.node) for m in b.mutations()) for a, b in ((ts, d1), (ts2, d2)))
    if moved:
        ctx.label("rephased")
    if switched:
        ctx.label("tsdate_switched")
    if moved and switched:
        ctx.mark_nontrivial()
    out += check_nodes(ts, d1, False, other)
    out += check_nodes(ts2, d2, False, P.other_node_map(ts2))
    if out:
        return out
    o1, o2 = observables(ts, d1, f1), observables(ts2, d2, f2)
    phase = np.asarray(f1.mutation_phase, dtype=float)
    tie = np.abs(phase - 0.5) < 1e-9
    identical = True
    for k in o1:
        a, b = o1[k], o2[k]
        if k == "mutations_node":
            neq = (a != b) & ~tie
            if np.any(a != b):
                identical = False
            if np.any((a != b) & tie):
                ctx.label("phase_tie_exempted")
            if np.any(neq):
                m = int(np.flatnonzero(neq)[0])
                out.append(Violation("rephase:output_node_depends_on_input_phase",
                                     f"mutation {m}: output node {int(a[m])} vs {int(b[m])} after re-phasing "
                                     f"(phase {float(phase[m])!r})", moved=moved[:10]))
            continue
        if not np.array_equal(a, b, equal_nan=True):
            identical = False
        r = rel_err(a, b)
        if np.any(r > TOL):
            i = int(np.argmax(r))
            out.append(Violation("rephase:" + k, f"{k}[{i}] = {float(a[i])!r} vs {float(b[i])!r} after re-phasing {len(moved)} "
                                 f"singleton(s) (rel.err {r[i]:.3g})", moved=moved[:10]))
            break
    if moved:
        ctx.label("bit_identical" if identical else "equal_within_tolerance_only")
    return out


def describe(case):
    return dict(cfg=case["cfg"], n_flips=int(sum(case["flips"])), ts=G.ts_summary(case["ts"]),
                singletons=int(len(P.singleton_ids(case["ts"]))))
