"""C23 — rescaling credits each unphased singleton to its two candidate branches by phase.

Reference (R), written with tskit only (does not call count_mutations / reallocate_unphased /
block_singletons): per-edge tallies of the *input* (mut.edge; weight 1 for segregating-sites
rescaling, number of samples below the mutation's node for path-length rescaling). For every
unphased singleton (mutation on a node of a diploid individual) the two candidate branches are
the edges above the individual's two nodes at the site. After
ExpectationPropagation.infer() the count column of the likelihood array that rescaling used
(fit.edge_likelihoods if rescale_segsites else fit.sizebiased_likelihoods) must equal:

* on every branch that is not a candidate branch: the input tally;
* on candidate branches: sum over their singletons of  max(q,1-q) on the branch the singleton
  was finally placed on (fit.mutation_edges) and min(q,1-q) on the other, q = fit.mutation_phase
  (so each singleton adds exactly one in total and the placed branch gets the larger share;
  the oracle does not depend on whether mutation_phase is stored relative to the first block
  edge or to the chosen edge).

Absolute tolerance 1e-9 on counts (sums of <= a few dozen numbers in [0,1]; observed error
<= 4e-16 on the unchanged tree).
"""

import numpy as np
import tskit
from hypothesis import strategies as st

from tsdate import variational

from vt.common import call, exc_key
from vt.gen import phase_c as P
from vt.gen import ts as G
from vt.runner import Violation

ID = "C23"
LEVEL = "exploration"
RULE = (
    "cases = (contemporaneous single-rooted tree sequence with diploid individuals on all or some samples, "
    "recombining, polytomies, finite-sites/stacked mutations, 0..12 extra leaf mutations) x (mu, EP iterations, "
    "rescale_intervals in {1,2,5,1000}, rescale_iterations in {1,5}, segregating-sites or path-length rescaling, "
    "root regularisation); ExpectationPropagation driven directly as core.VariationalGammaMethod.run does; "
    "non-trivial = >= 1 singleton finally placed on the second edge of its block (where a mis-oriented "
    "credit shows); distinct by SHA-1 of (tables, configuration)"
)
ASSUMPTIONS = [
    "fit.mutation_phase (after infer) is the fitted probability of the singleton lying on one of its two branches "
    "(which of the two is not assumed); that the value itself is right belongs to C18/C22",
    "no missing data: a locally isolated node of a diploid individual asserts (F8, property C35) - discarded",
    "if infer() stops with 'Use fewer rescaling intervals' (F2) the reallocation has already been done "
    "(it is the first statement of rescale()) and the counts are still judged (label after_F2)",
    "numpy/tskit/msprime trusted; tskit's mut.edge and Tree.num_samples used for the reference tallies",
]
ATOL = 1e-9


def budget(tier):
    if tier == "quick":
        return dict(examples=200, shards=4)
    return dict(examples=1200, shards=16)


@st.composite
def strategy_(draw, tier):
    ts = draw(P.diploid_ts(tier))
    cfg = dict(
        mu=draw(st.sampled_from([1e-3, 1e-2, 0.1, 1.0])),
        ep_iterations=draw(st.sampled_from([1, 3, 10])),
        rescale_intervals=draw(st.sampled_from([1, 2, 5, 1000])),
        rescale_iterations=draw(st.sampled_from([1, 5])),
        rescale_segsites=draw(st.booleans()),
        regularise=draw(st.sampled_from([True, True, False])),
    )
    return dict(ts=ts, cfg=cfg)


def strategy(tier):
    return strategy_(tier)


def reference_tallies(ts, size_biased):
    """per-edge input tallies and, per singleton, its two candidate edges"""
    base = np.zeros(ts.num_edges)
    other = P.other_node_map(ts)
    cand = {}
    tree = ts.first()
    for site in ts.sites():
        tree.seek(site.position)
        for m in site.mutations:
            e = m.edge
            if e != tskit.NULL:
                base[e] += tree.num_samples(m.node) if size_biased else 1.0
            if ts.nodes_individual[m.node] != tskit.NULL:
                v = other[m.node]
                cand[m.id] = (tree.edge(m.node), tree.edge(v) if v != tskit.NULL else tskit.NULL)
    return base, cand


def check(case, ctx):
    ts, cfg = case["ts"], case["cfg"]
    seg = cfg["rescale_segsites"]
    ctx.label("segsites" if seg else "pathlength", f"rescale_intervals={cfg['rescale_intervals']}")
    st0, fit = call(variational.ExpectationPropagation, ts, mutation_rate=cfg["mu"], singletons_phased=False)
    if st0 != "ok":
        ctx.discard(("expected_rejection:" if st0 == "rejected" else "internal:") + exc_key(fit))
        return []
    st1, res = call(fit.infer, ep_iterations=cfg["ep_iterations"], max_shape=1000.0,
                    rescale_intervals=cfg["rescale_intervals"], rescale_iterations=cfg["rescale_iterations"],
                    regularise=cfg["regularise"], rescale_segsites=seg)
    if st1 != "ok":
        if isinstance(res, AssertionError) and "Use fewer rescaling intervals" in str(res):
            ctx.label("after_F2")
        else:
            ctx.discard("internal:" + exc_key(res))
            return []
    base, cand = reference_tallies(ts, size_biased=not seg)
    if any(tskit.NULL in pair for pair in cand.values()):
        ctx.discard("isolated_individual_node (F8 domain)")
        return []
    lik = np.asarray(fit.edge_likelihoods if seg else fit.sizebiased_likelihoods)[:, 0]
    phase = np.asarray(fit.mutation_phase, dtype=float)
    placed = np.asarray(fit.mutation_edges)
    block_edges = np.asarray(fit.block_edges)
    blocks = np.asarray(fit.mutation_blocks)
    out = []
    is_cand = np.zeros(ts.num_edges, dtype=bool)
    ind_nodes = np.flatnonzero(ts.nodes_individual != tskit.NULL)
    is_cand[np.isin(ts.edges_child, ind_nodes)] = True  # leaf edges of unphased individuals
    expected = base.copy()
    expected[is_cand] = 0.0
    first_edge_model = expected.copy()  # F6: phase credited to the first block edge whatever was chosen
    on_second = 0
    for m, (eu, ev) in cand.items():
        q = phase[m]
        if np.isnan(q):
            ctx.discard("nan_phase")
            return []
        if not (0.0 <= q <= 1.0):
            return [Violation("phase_out_of_range", f"mutation {m}: phase {q!r}")]
        if placed[m] not in (eu, ev):
            return [Violation("placed_off_candidate_branches", f"singleton {m} placed on edge {placed[m]}, candidates "
                              f"{eu},{ev}")]
        oth = ev if placed[m] == eu else eu
        expected[placed[m]] += max(q, 1 - q)
        expected[oth] += min(q, 1 - q)
        b = blocks[m]
        if b != tskit.NULL:
            first_edge_model[block_edges[b, 0]] += q
            first_edge_model[block_edges[b, 1]] += 1 - q
            if placed[m] == block_edges[b, 1] and abs(q - 0.5) > 1e-6:
                on_second += 1
    if cand:
        ctx.label("has_singletons")
    if on_second:
        ctx.label("singleton_on_second_block_edge")
        ctx.mark_nontrivial()
    # other branches unchanged
    d_other = np.abs(lik - base)
    d_other[is_cand] = 0.0
    if np.any(d_other > ATOL):
        e = int(np.argmax(d_other))
        out.append(Violation("other_branch_changed", f"edge {e} (not a candidate branch): count {float(lik[e])!r}, input tally {float(base[e])!r}"))
    # each singleton adds exactly one in total (per individual: its leaf edges carry only its singletons)
    for ind in ts.individuals():
        edges = np.flatnonzero(np.isin(ts.edges_child, ind.nodes))
        n = sum(1 for m in cand if ts.nodes_individual[ts.mutations_node[m]] == ind.id)
        tot = float(lik[edges].sum())
        if abs(tot - n) > ATOL * max(1, n):
            out.append(Violation("total_not_one_per_singleton", f"individual {ind.id}: {n} singleton(s) but its branches carry {tot!r}"))
            break
    d = np.abs(lik - expected)
    d[~is_cand] = 0.0
    if np.any(d > ATOL):
        e = int(np.argmax(d))
        if on_second and np.all(np.abs(lik - first_edge_model)[is_cand] <= ATOL):
            ms = [m for m in cand if placed[m] == e or e in cand[m]]
            out.append(Violation("split:placed_branch_gets_smaller_share(phase_credited_to_first_block_edge)",
                                 f"edge {e}: count {float(lik[e])!r}, expected {float(expected[e])!r}; singleton(s) {ms[:4]} with phase "
                                 f"{[float(phase[m]) for m in ms[:4]]} placed on edge(s) {[int(placed[m]) for m in ms[:4]]}: "
                                 f"counts equal 'phase to block_edges[:,0], 1-phase to block_edges[:,1]'",
                                 segsites=seg))
        else:
            out.append(Violation("split:not_by_phase", f"edge {e}: count {float(lik[e])!r}, expected {float(expected[e])!r} "
                                 f"(input tally {float(base[e])!r})", segsites=seg))
    return out


def describe(case):
    return dict(cfg=case["cfg"], ts=G.ts_summary(case["ts"]), singletons=int(len(P.singleton_ids(case["ts"]))))
