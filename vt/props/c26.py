"""C26 — changepoint helpers meet their specification.

fixed helper  `_fixed_changepoints(counts, epochs)`: boundaries e[0..epochs], e[0]=0, e[-1]=n,
non-decreasing, interior e[k] = max{i : Y_i/Y_n <= k/epochs} (exact rationals, either side of
an exact tie accepted).

Poisson helper `_poisson_changepoints(counts, offset, penalty, min_counts, min_offset)`: the
returned breaks are a well-formed segmentation (0 = b0 < b1 < ... = n), every segment meets the
minima, and its penalised deviance equals the brute-force minimum over all 2^(n-1) segmentations
(vt/oracle/changepoints_g.py; 1e-9 relative: both sides evaluate the same closed form, the only
rounding is log and the summation order; on the unchanged tree no input of the unconstrained,
zero-free class came near the tolerance in seeds 1..5).

Complete enumeration (extra) + Hypothesis draws of longer vectors (check).
"""

import itertools
import math
import sys

import numpy as np
from hypothesis import strategies as st

from tsdate import rescaling

from vt.common import call, exc_key
from vt.oracle import changepoints_g as O
from vt.runner import Violation

ID = "C26"
LEVEL = "exploration"
EXHAUSTIVE = True
NO_SHRINK = False
RULE = (
    "complete enumeration of count vectors of length <= 4 (quick) / <= 6 (thorough) over {0,1,3,8}, "
    "offsets {1,3}, penalties {0,2}, (min_counts,min_offset) in {0,3}^2 for the Poisson helper and "
    "epochs 1..4 for the fixed helper; plus Hypothesis draws of length 1..10 (quick) / 12 (thorough) "
    "with entries from {0,1,2,3,5,8} or multiples of 1/8, epochs 1..8, penalties {0,0.5,2,10}, minima "
    "{0,1,3,6}. non-trivial = (poisson) the brute-force optimum has at least one changepoint and is "
    "not the finest segmentation, or (fixed) some interior boundary lies strictly between 0 and n; "
    "distinct by SHA-1 of the argument tuple"
)
ASSUMPTIONS = [
    "counts >= 0, offsets > 0, all entries exactly representable (multiples of 1/8) so that partial sums are exact",
    "inputs with no feasible segmentation (Poisson) or zero total mass (fixed) are outside the domain and counted as discards",
    "ties in the objective: any minimiser is accepted (cost comparison at 1e-9 relative)",
    "python fractions / math.log trusted",
]

COST_RTOL = 1e-9


def budget(tier):
    if tier == "quick":
        return dict(examples=1500, shards=4)
    return dict(examples=12000, shards=16)


# ------------------------------------------------------------------------------ strategy

SMALL = [0, 0, 1, 1, 2, 3, 5, 8]


@st.composite
def strategy_(draw, tier):
    nmax = 10 if tier == "quick" else 12
    kind = draw(st.sampled_from(["fixed", "poisson", "poisson", "poisson"]))
    n = draw(st.integers(1, nmax))
    style = draw(st.sampled_from(["small", "small", "eighths", "zeros_heavy", "big"]))
    if style == "small":
        counts = draw(st.lists(st.sampled_from(SMALL), min_size=n, max_size=n))
    elif style == "eighths":
        counts = [x / 8.0 for x in draw(st.lists(st.integers(0, 80), min_size=n, max_size=n))]
    elif style == "zeros_heavy":
        counts = draw(st.lists(st.sampled_from([0, 0, 0, 1, 8]), min_size=n, max_size=n))
    else:
        counts = draw(st.lists(st.sampled_from([0, 1, 10, 100, 1000, 12345]), min_size=n, max_size=n))
    counts = [float(c) for c in counts]
    if kind == "fixed":
        return dict(kind="fixed", counts=counts, epochs=draw(st.integers(1, 8)))
    ostyle = draw(st.sampled_from(["ones", "small", "eighths"]))
    if ostyle == "ones":
        offset = [1.0] * n
    elif ostyle == "small":
        offset = [float(x) for x in draw(st.lists(st.sampled_from([1, 1, 2, 3, 5]), min_size=n, max_size=n))]
    else:
        offset = [x / 8.0 for x in draw(st.lists(st.integers(1, 80), min_size=n, max_size=n))]
    return dict(
        kind="poisson", counts=counts, offset=offset,
        penalty=float(draw(st.sampled_from([0, 0, 0.5, 2, 10]))),
        min_counts=float(draw(st.sampled_from([0, 0, 1, 3, 6]))),
        min_offset=float(draw(st.sampled_from([0, 0, 1, 3, 6]))),
    )


def strategy(tier):
    return strategy_(tier)


# -------------------------------------------------------------------------------- checks


def check_fixed(case, ctx, count=None):
    counts = np.array(case["counts"], dtype=np.float64)
    epochs = int(case["epochs"])
    n = counts.size
    if counts.sum() == 0:
        ctx.discard("fixed:zero_total")
        return [], False
    status, res = call(rescaling._fixed_changepoints, counts, epochs)
    if status != "ok":
        return [Violation("fixed:raised:" + exc_key(res), f"_fixed_changepoints raised {res!r}")], False
    e = [int(x) for x in res]
    out = []
    if len(e) != epochs + 1 or e[0] != 0 or e[-1] != n or any(a > b for a, b in zip(e[:-1], e[1:])):
        return [Violation("fixed:malformed", f"boundaries {e} for n={n}, epochs={epochs}: not a non-decreasing "
                          f"sequence of epochs+1 values from 0 to n")], False
    integer = bool(np.all(counts == np.floor(counts)))
    nontrivial = False
    for k in range(1, epochs):
        ok = O.fixed_acceptable(case["counts"], epochs, k, tie_rel=0.0 if integer else 1e-12)
        if len(ok) > 1:
            ctx.label("fixed:tie")
        if e[k] not in ok:
            kind = "too_late" if e[k] > max(ok) else "too_early"
            out.append(Violation(f"fixed:boundary_{kind}", f"counts={case['counts']} epochs={epochs}: boundary k={k} "
                                 f"is {e[k]}, the last index with cumulative fraction <= {k}/{epochs} is {sorted(ok)}"))
            break
        if 0 < e[k] < n:
            nontrivial = True
    return out, nontrivial


def classify_poisson(case, tables):
    """which known root cause could be active for this input"""
    cost, feas = tables
    if (case["min_counts"] > 0 or case["min_offset"] > 0) and not all(feas.values()):
        return "with_min_constraints"
    if any(c == 0 for c in case["counts"]):
        return "nan_zero_counts"
    return "plain"


def check_poisson(case, ctx, brute=None):
    counts = np.array(case["counts"], dtype=np.float64)
    offset = np.array(case["offset"], dtype=np.float64)
    n = counts.size
    pen, mc, mo = float(case["penalty"]), float(case["min_counts"]), float(case["min_offset"])
    if brute is None:
        best, arg, tables = O.poisson_brute(case["counts"], case["offset"], pen, mc, mo)
    else:
        best, arg, tables = brute
    if arg is None:
        ctx.discard("poisson:no_feasible_segmentation")
        return [], False
    cls = classify_poisson(case, tables)
    nontrivial = 2 < len(arg) < n + 1
    status, res = call(rescaling._poisson_changepoints, counts, offset, pen, mc, mo)
    desc = (f"counts={case['counts']} offset={case['offset']} penalty={pen} min_counts={mc} min_offset={mo}")
    if status != "ok":
        return [Violation("poisson:raised:" + exc_key(res), f"{desc}: raised {res!r}")], nontrivial
    b = [int(x) for x in res]
    if not O.well_formed(b, n):
        return [Violation(f"poisson:malformed:{cls}", f"{desc}: returned {b}, not an increasing sequence from 0 to {n}")], nontrivial
    cost, feas = tables
    bad = [(i, j) for i, j in zip(b[:-1], b[1:]) if not feas[i, j]]
    if bad:
        return [Violation(f"poisson:infeasible:{cls}", f"{desc}: returned {b} whose segment {bad[0]} violates the "
                          f"minima although {list(arg)} is feasible")], nontrivial
    got = O.poisson_objective(b, cost, feas, pen)
    if got > best + COST_RTOL * (1.0 + abs(best)):
        key = "poisson:suboptimal" if cls == "plain" else f"poisson:suboptimal_{cls}" if cls == "with_min_constraints" \
            else "poisson:nan_zero_counts"
        return [Violation(key, f"{desc}: returned {b} with penalised deviance {got!r}; "
                          f"{list(arg)} has {best!r}", excess=got - best)], nontrivial
    return [], nontrivial


def check(case, ctx):
    if case["kind"] == "fixed":
        n = len(case["counts"])
        ctx.label("fixed", f"fixed:n={n}")
        out, nt = check_fixed(case, ctx)
    else:
        n = len(case["counts"])
        ctx.label("poisson", f"poisson:n={n}")
        if case["min_counts"] > 0 or case["min_offset"] > 0:
            ctx.label("poisson:minima_set")
        if any(c == 0 for c in case["counts"]):
            ctx.label("poisson:has_zero_count")
        if case["penalty"] > 0:
            ctx.label("poisson:penalised")
        out, nt = check_poisson(case, ctx)
    if nt:
        ctx.mark_nontrivial()
        ctx.label("nontrivial")
    return out


def describe(case):
    return {k: v for k, v in case.items()}


# ---------------------------------------------------------------------------- enumeration


def _num_shards(tier):
    if "--shards" in sys.argv:
        try:
            return max(1, int(sys.argv[sys.argv.index("--shards") + 1]))
        except (ValueError, IndexError):
            pass
    return budget(tier).get("shards", 1)


COUNT_VALUES = (0.0, 1.0, 3.0, 8.0)
OFFSET_VALUES = (1.0, 3.0)
PENALTIES = (0.0, 2.0)
MINIMA = ((0.0, 0.0), (3.0, 0.0), (0.0, 3.0), (3.0, 3.0))


def extra(ctx, tier, shard):
    nmax = 4 if tier == "quick" else 6
    nshards = _num_shards(tier)
    idx = 0
    n_p = n_f = n_nt = 0
    complete = True
    for n in range(1, nmax + 1):
        for counts in itertools.product(COUNT_VALUES, repeat=n):
            idx += 1
            if idx % nshards != shard % nshards:
                continue
            if ctx.out_of_time():
                complete = False
                break
            counts = list(counts)
            # fixed helper
            for epochs in (1, 2, 3, 4):
                case = dict(kind="fixed", counts=counts, epochs=epochs)
                vs, nt = check_fixed(case, ctx)
                ctx.evaluations += 1
                n_f += 1
                if nt:
                    n_nt += 1
                    if n <= 4:
                        ctx.add_nontrivial(case)
                for v in vs:
                    ctx.violation(v, case=case)
            # poisson helper
            for offset in itertools.product(OFFSET_VALUES, repeat=n):
                offset = list(offset)
                for mc, mo in MINIMA:
                    cost, feas = O.poisson_tables(counts, offset, mc, mo)
                    for pen in PENALTIES:
                        best, arg = math.inf, None
                        for seg in O.segmentations(n):
                            v = O.poisson_objective(seg, cost, feas, pen)
                            if v < best:
                                best, arg = v, seg
                        case = dict(kind="poisson", counts=counts, offset=offset, penalty=pen,
                                    min_counts=mc, min_offset=mo)
                        vs, nt = check_poisson(case, ctx, brute=(best, arg, (cost, feas)))
                        ctx.evaluations += 1
                        n_p += 1
                        if nt:
                            n_nt += 1
                            if n <= 4:
                                ctx.add_nontrivial(case)
                        for v in vs:
                            ctx.violation(v, case=case)
        if not complete:
            break
    # (the runner sums bools when merging shards: incompleteness is carried in a list and
    # applied in finish())
    ctx.extra["exhaustive"] = True
    if not complete:
        ctx.extra["incomplete_shards"] = [shard]
    ctx.extra["enumerated_poisson"] = n_p
    ctx.extra["enumerated_fixed"] = n_f
    ctx.extra["enumerated_nontrivial"] = n_nt
    ctx.extra["enumeration_max_length"] = nmax if shard == 0 else 0
    ctx.label("enumeration_shard_done")


def finish(ctx, tier):
    if ctx.extra.get("incomplete_shards"):
        ctx.extra["exhaustive"] = False
    else:
        ctx.extra["exhaustive"] = True


def replay_extra(case, ctx):
    return check(case, ctx)
