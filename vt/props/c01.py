"""C01 — the dated output is a valid tree sequence with enforced branch lengths.

Oracle (I, validity predicate over the returned tree sequence, nothing of tsdate is re-used):
  * the tables re-validate (`dump_tables().tree_sequence()`), node times are finite;
  * every edge: t[parent] > t[child] and t[parent] >= fl(t[child] + min_branch_length);
  * every mutation: known finite time, t[node] <= time, and time <= t[parent of node in the local
    tree] (no upper bound above a root).
  * a tskit.LibraryError raised *inside get_modified_ts* (tskit refusing the tables tsdate itself
    built from an accepted input) is a violation: tsdate could not return a valid result. The bucket
    key says why (DESIGN §6 F1): `invalid_output:eps_absorbed` when fl(t+eps)==t left a parent no
    older than a child, `invalid_output:mutation_time_rounding` when node times are fine but a forced
    branch is only a few ulps long and tskit's even spacing of mutation times rounds onto the parent's
    time (tskit wants time < parent), `invalid_output:nonfinite_times` when posterior means are NaN/inf.
"""

import numpy as np
import tskit
from hypothesis import strategies as st

from vt.common import exc_key
from vt.gen import cfg_a as A
from vt.runner import Violation

ID = "C01"
LEVEL = "exploration"
RULE = (
    "cases = (generated tree sequence: simulated/built, polytomies, multi-tree, multi-root, historical "
    "leaf samples, internal and unary samples, mutations above roots, input times x 1e-6..1e12) x "
    "(method, mutation rate placing output times in decades 1e-6..1e12, min_branch_length 1e-12..1e2, "
    "constr_iterations, rescaling, singletons_phased, discrete-method options); non-trivial = the "
    "constraint fired on some edge (unconstrained parent mean <= child mean + min_branch_length) or "
    "min_branch_length is below the float spacing at the oldest output time; distinct by SHA-1 of the case"
)
ASSUMPTIONS = [
    "tskit's table validation is the definition of 'valid tree sequence'",
    "discrete methods only get contemporaneous single-root inputs without unary nodes; clean "
    "ValueError/NotImplementedError rejections are discarded, other internal errors belong to C35",
    "min_branch_length default is 1e-8 as documented",
]


def budget(tier):
    if tier == "quick":
        return dict(examples=110, shards=4, time_s=1800)  # cap only: cold-JIT audits on a loaded machine
    return dict(examples=1500, shards=16)


def strategy(tier):
    # one case in four is a variational_gamma run on an input with internal samples (samples of known
    # age that are parents): the forced pass treats fixed nodes specially, the other classes reach
    # that code only rarely
    return st.one_of(A.dating_case(tier), A.dating_case(tier), A.dating_case(tier),
                     A.dating_case(tier, methods=("variational_gamma",), want="internal", unphased=False))


DEFAULT_EPS = 1e-8


def _diagnose(case, exc, ctx):
    """tskit refused tsdate's own tables: find out which rounding regime (bucket key only;
    the violation itself is the LibraryError)."""
    ts = case["ts"]
    eps = case["kw"].get("min_branch_length", DEFAULT_EPS)
    msg = str(exc)
    detail = dict(error=msg[:160])
    mean = None
    for mbl in (eps * 1e8 ** j for j in range(1, 7)):  # public API only: same call, coarser spacing
        status, res = A.run_dating(case, min_branch_length=mbl)
        if status == "ok":
            mean = A.unconstrained_means(case, res[0], res[1])
            break
    if mean is None:
        return Violation("invalid_output:undiagnosed:" + exc_key(exc), f"tskit rejected tsdate's output: {msg}", **detail)
    if not np.all(np.isfinite(mean)):
        ctx.label("F10_nonfinite_means")
        return Violation(f"invalid_output:nonfinite_times:{case['method']}",
                         f"posterior means are not finite and get_modified_ts raised: {msg}", **detail)
    tmax = float(np.max(mean))
    detail.update(tmax=tmax, eps=eps, ulp=float(np.spacing(tmax)))
    absorbed = bool(np.any((mean + eps == mean) & (mean > 0)))
    few_ulps = eps < 4096 * np.spacing(tmax)
    if "TSK_ERR_BAD_NODE_TIME_ORDERING" in msg and absorbed:
        ctx.label("F1_eps_absorbed")
        return Violation("invalid_output:eps_absorbed",
                         f"min_branch_length={eps!r} is absorbed at node times ~{tmax:.3g} (ulp {np.spacing(tmax):.3g}): "
                         f"forced parent == child and tskit raised: {msg}", **detail)
    if "TSK_ERR_MUTATION_TIME_OLDER_THAN_PARENT_NODE" in msg and few_ulps:
        ctx.label("F1b_mutation_time_rounding")
        return Violation("invalid_output:mutation_time_rounding",
                         f"min_branch_length={eps!r} is only {eps / np.spacing(tmax):.3g} ulp at node times ~{tmax:.3g}: "
                         f"compute_mutation_times put a mutation at its parent node's time and tskit raised: {msg}", **detail)
    return Violation("invalid_output:" + exc_key(exc), f"tskit rejected tsdate's output: {msg}", **detail)


def validity_violations(dts, eps):
    """the statement's clauses on a returned tree sequence"""
    out = []
    try:
        dts.dump_tables().tree_sequence()
    except Exception as e:  # pragma: no cover (a TreeSequence object was already validated once)
        out.append(Violation("revalidation_failed", f"returned tables do not re-validate: {e}"))
        return out
    t = dts.nodes_time
    if not np.all(np.isfinite(t)):
        out.append(Violation("nonfinite_node_time", f"node {int(np.flatnonzero(~np.isfinite(t))[0])} has a non-finite time"))
        return out
    p, c = dts.edges_parent, dts.edges_child
    bad = np.flatnonzero(~(t[p] > t[c]))
    if len(bad):
        e = int(bad[0])
        out.append(Violation("parent_not_older", f"edge {e}: parent {p[e]} time {t[p[e]]!r} <= child {c[e]} time {t[c[e]]!r}"))
    bad = np.flatnonzero(~(t[p] >= t[c] + eps))
    if len(bad):
        e = int(bad[0])
        out.append(Violation("branch_shorter_than_min", f"edge {e}: parent time {t[p[e]]!r} < fl(child time {t[c[e]]!r} + "
                             f"{eps!r}) = {t[c[e]] + eps!r}", eps=eps))
    for tree in dts.trees():
        for site in tree.sites():
            for m in site.mutations:
                if tskit.is_unknown_time(m.time) or not np.isfinite(m.time):
                    out.append(Violation("mutation_time_unknown", f"mutation {m.id} has time {m.time!r}"))
                    return out
                if m.time < t[m.node]:
                    out.append(Violation("mutation_younger_than_node", f"mutation {m.id} time {m.time!r} < node {m.node} time {t[m.node]!r}"))
                    return out
                par = tree.parent(m.node)
                if par != tskit.NULL and m.time > t[par]:
                    out.append(Violation("mutation_older_than_parent", f"mutation {m.id} time {m.time!r} > parent node {par} time {t[par]!r}"))
                    return out
    return out


def check(case, ctx):
    ts = case["ts"]
    eps = case["kw"].get("min_branch_length", DEFAULT_EPS)
    status, res = A.run_dating(case)
    if status != "ok":
        if status == "internal" and isinstance(res, tskit.LibraryError) and A.raised_in(res, "get_modified_ts"):
            ctx.label(*A.option_labels(case), *A.input_labels(ts), "outcome=tskit_rejected_output")
            ctx.mark_nontrivial()
            return [_diagnose(case, res, ctx)]
        ctx.discard(A.classify_failure(status, res))
        return []
    dts, fit = res[0], res[1]
    ctx.label(*A.option_labels(case), *A.input_labels(ts), *case["cls"])
    if not isinstance(dts, tskit.TreeSequence):
        return [Violation("not_a_tree_sequence", f"first return value is {type(dts).__name__}")]
    out = validity_violations(dts, eps)
    # non-triviality / labels from the unconstrained means
    t = dts.nodes_time
    tmax = float(t.max())
    ctx.label("out_tmax=1e%+03d" % int(np.floor(np.log10(tmax))) if tmax > 0 else "out_tmax=0")
    mean = A.unconstrained_means(case, dts, fit)
    fired = bool(np.any(mean[ts.edges_parent] <= mean[ts.edges_child] + eps))
    absorbed = bool(tmax + eps == tmax)
    few_ulps = bool(eps < 4096 * np.spacing(tmax))
    if fired:
        ctx.label("constraint_fired")
    if absorbed:
        ctx.label("eps_absorbed_at_tmax")
    elif few_ulps:
        ctx.label("eps_below_4096ulp_at_tmax")
    if fired and (absorbed or few_ulps):
        ctx.label("constraint_fired_in_rounding_regime")
    if fired or absorbed:
        ctx.mark_nontrivial()
    if A.has_root_mutation(ts):
        ctx.label("mutation_above_root")
    return out


def describe(case):
    return A.describe(case)
