"""C20 — EP is exact in the conjugate (star) case.

Star-like inputs built by construction (vt/gen/star_f.py): every edge joins a non-sample
parent to a sample at time zero.  The exact posterior of each parent is then
Gamma(1 + sum of mutations on its edges, mutation_rate * total span of its edges), and
variational_gamma without root regularisation / rescaling must return exactly that (mean and
variance, 1e-9).  If that shape exceeds max_shape the statement says both natural parameters
are scaled by one factor d so that the shape equals max_shape:
(alpha, beta) -> (d alpha, d beta), d = (max_shape - 1) / alpha.
"""

import numpy as np
from hypothesis import strategies as st

import tsdate

from vt.common import call, exc_key
from vt.gen import star_f as S
from vt.runner import Violation

ID = "C20"
LEVEL = "exploration"
RULE = (
    "case = star-like ts by construction (n in 2..10 samples at 0, 1..5 trees, each sample under one of K<=3 "
    "non-sample parents per tree, >=2 children per parent unless allow_unary; multiple roots; 0..40 mutations "
    "above each sample per tree, optional mutations above roots) x mu 10^U(-9,-2) x max_iterations 1..10 x "
    "max_shape in {1.5,3,10,1000} x allow_unary; non-trivial = (>=2 trees or >=2 parents) and >=1 mutation on "
    "an edge; distinct by case digest"
)
ASSUMPTIONS = [
    "tskit trusted for table construction; the oracle is the conjugate gamma posterior computed from the "
    "generator's own specification (mutation counts and spans), not from tsdate.count_mutations",
    "fit.node_posteriors() (mean, variance) is the observation point; shape = mean^2/var, rate = mean/var",
]

# Calibration (unchanged tree, 300-case probe + quick runs): uncapped mean/variance rel err <= 1.4e-15;
# capped: shape/max_shape - 1 <= 3e-16 in every case; capped rate: off by up to tens of percent in ~85 % of
# the capped parents with >= 2 edges (finding C20-cap-not-uniform, DESIGN F12), exact (<= 1e-15) for
# single-edge (unary) parents.
TOL = 1e-9


def budget(tier):
    if tier == "quick":
        return dict(examples=250, shards=4)
    return dict(examples=2500, shards=16)


@st.composite
def strategy_(draw, tier):
    allow_unary = draw(st.sampled_from([False, False, True]))
    spec = draw(S.star_spec(allow_unary=allow_unary))
    return dict(
        spec=spec,
        allow_unary=allow_unary,
        log_mu=draw(st.floats(-9.0, -2.0, allow_nan=False)),
        max_iterations=draw(st.integers(1, 10)),
        max_shape=draw(st.sampled_from([1.5, 3.0, 10.0, 1000.0])),
    )


def strategy(tier):
    return strategy_(tier)


def describe(case):
    return dict(spec=case["spec"].summary(), allow_unary=case["allow_unary"], mu=10.0 ** case["log_mu"],
                max_iterations=case["max_iterations"], max_shape=case["max_shape"])


def check(case, ctx):
    spec = case["spec"]
    mu = 10.0 ** case["log_mu"]
    max_shape = case["max_shape"]
    ts, node_of = spec.tree_sequence()
    unary = S.has_unary(spec)
    ctx.label(f"max_shape={max_shape:g}", f"iterations={'1' if case['max_iterations'] == 1 else '2+'}",
              f"trees={min(ts.num_trees, 3)}{'+' if ts.num_trees >= 3 else ''}",
              f"parents={len(node_of)}", "unary_parent" if unary else "no_unary",
              "root_mutations" if any(ts.mutations_node >= spec.n) else "no_root_mutations")
    status, res = call(
        tsdate.date, ts, mutation_rate=mu, method="variational_gamma", max_iterations=case["max_iterations"],
        max_shape=max_shape, regularise_roots=False, rescaling_intervals=0, return_fit=True,
        allow_unary=case["allow_unary"],
    )
    if status != "ok":
        # the statement says variational_gamma "gives each parent ..." on every star-like input
        return [Violation("raised:" + exc_key(res), f"variational_gamma raised {res!r} on a star-like input")]
    _, fit = res
    post = fit.node_posteriors()
    y, span = spec.oracle()
    edges_of = {}
    for _, _, p, _ in spec.edges():
        edges_of[p] = edges_of.get(p, 0) + 1
    out = []
    if (ts.num_trees >= 2 or len(node_of) >= 2) and sum(y.values()) >= 1:
        ctx.mark_nontrivial()
    for p, u in sorted(node_of.items()):
        alpha, beta = float(y[p]), mu * span[p]
        mn, va = float(post["mean"][u]), float(post["variance"][u])
        if not (np.isfinite(mn) and np.isfinite(va) and mn > 0 and va > 0):
            out.append(Violation("posterior_invalid", f"parent {u}: posterior mean {mn!r}, variance {va!r}"))
            continue
        shape_got, rate_got = mn * mn / va, mn / va
        if alpha + 1.0 <= max_shape:  # equality: d = 1, both clauses coincide
            ctx.label("parent:uncapped")
            e = max(abs(mn / ((alpha + 1) / beta) - 1), abs(va / ((alpha + 1) / beta**2) - 1))
            if not e <= TOL:
                out.append(Violation("uncapped:not_conjugate_posterior",
                                     f"parent {u} ({edges_of[p]} edges, y={y[p]}, span={span[p]}): mean {mn!r}, var {va!r}; exact "
                                     f"Gamma({alpha + 1},{beta!r}) has mean {(alpha + 1) / beta!r}, var {(alpha + 1) / beta**2!r} (rel err {e:.3g})"))
        else:
            d = (max_shape - 1.0) / alpha
            single = edges_of[p] == 1
            ctx.label("parent:capped:single_edge" if single else "parent:capped:multi_edge")
            e_shape = abs(shape_got / max_shape - 1)
            e_rate = abs(rate_got / (d * beta) - 1)
            if not e_shape <= TOL:
                out.append(Violation("capped:shape_not_max_shape", f"parent {u}: exact shape {alpha + 1} > max_shape {max_shape}, "
                                     f"posterior shape {shape_got!r} != max_shape"))
            elif not e_rate <= TOL:
                key = "capped:single_edge_rate" if single else "capped:not_uniform_scaling"
                out.append(Violation(key, f"parent {u} ({edges_of[p]} edges, y={y[p]}, span={span[p]}, mu={mu!r}, max_shape={max_shape}, "
                                     f"iterations={case['max_iterations']}): posterior shape is max_shape but rate {rate_got!r} != d*beta "
                                     f"= {d * beta!r} (mean {mn!r} vs {max_shape / (d * beta)!r}, rel err {e_rate:.3g})"))
            else:
                ctx.label("parent:capped:uniform_scaling_holds")
    return out
