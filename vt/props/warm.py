"""Not a property: imports tsdate once so every numba kernel is compiled into the cache."""
ID = "WARM"
