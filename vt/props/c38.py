"""C38 — ignore_oldest_root ignores exactly the messages of the oldest root, whatever the numbering.

What "ignoring the root's messages" means (read off BeliefPropagation.outside_pass, in the
canonical numbering where the oldest root is the last node): while the outside value of a
child c is assembled, every edge whose parent is that node is skipped.  A child all of whose
edges come from it keeps the identity message, i.e. its posterior is its (normalised) inside
row: c becomes the top of an independent sub-model; the root's own posterior is inside x 1,
its marginal in the full model.  Everything else in the pass is unchanged.

Oracles, applied to every numbering ("variant") of the same input:
 (R1, single trees) brute-force enumeration (vt/oracle/discrete_bruteforce.py): posterior of
     the root = its marginal in the full model; posterior of every node below a child c of
     the root = marginal in the model restricted to c's subtree with c's prior row on top.
 (R2, any input) a dense, independent re-statement of the outside recursion
     (vt/oracle/outside_ref.py) fed with fit.inside (which does not depend on the option),
     leaving out the edges whose parent is the oldest root (greatest input time).  The
     re-statement is validated on every case against a run with ignore_oldest_root=False
     (if that fails the case is discarded: not this property's business).
 (M)  renumbering invariance: posteriors, posterior-mean node times and likelihood mapped
     through the permutation agree (1e-9).
A failing variant is classified: if its output equals R2 with the edges of node
`num_nodes-1` left out instead, and that node is not the oldest root, the key is
`ignores_last_node_instead_of_oldest_root` (DESIGN F14); anything else gets another key.

Calibration (quick tier, seeds 1..5, 1 000-1 400 cases each): on the unchanged tree, variants
with the oldest root last: worst |posterior - R1| = 4.4e-15, |posterior - R2| = 4.2e-15; re-stated
recursion vs ignore_oldest_root=False run 5.2e-15.  With fixes_proposed/C38_oldest_root.patch
applied (700 cases, every variant): no bucket, worst renumbering difference 2.1e-15 relative.
Tolerance everywhere: 1e-9 (abs on probabilities, rel on times and likelihood).
"""

import numpy as np
from hypothesis import strategies as st

import tsdate

from vt.common import call, exc_key, node_is_sample
from vt.gen import shapes as S
from vt.gen import ts as G
from vt.oracle import discrete_bruteforce as BF
from vt.oracle import outside_ref as OR
from vt.runner import Violation

ID = "C38"
LEVEL = "exploration"
RULE = (
    "cases = (single tree of 2..6 leaves with drawn per-edge mutation counts, or a contemporaneous "
    "single-root-per-tree multi-tree sequence from G-TS with several roots of distinct ages) x "
    "(base numbering, a drawn permutation of the non-sample ids, a drawn permutation of all ids, the "
    "numbering that puts the oldest root last) x prior (conditional-coalescent grid via population_size or "
    "build_prior_grid, hand-filled grid on single trees) x eps x mutation rate x probability space x "
    "cache_inside x outside_standardize; non-trivial = some variant has an oldest root that is not the "
    "last node and the option changes the posterior of some node by > 1e-6; distinct by SHA-1 of the case"
)
ASSUMPTIONS = [
    "samples at time 0, one root per tree, no unary nodes (domain of the discrete methods)",
    "the oldest root is unique (inputs with tied greatest node time are discarded)",
    "fit.inside (inside pass) is trusted here: it is judged by C10/C11 and does not depend on the option",
    "trusted: numpy, tskit, math.lgamma; tolerance 1e-9",
]

TOL = 1e-9


def budget(tier):
    if tier == "quick":
        return dict(examples=200, shards=4, time_s=2400)  # see C10: slow cold imports under load
    return dict(examples=2500, shards=16)


# --------------------------------------------------------------------------
# generation
# --------------------------------------------------------------------------


@st.composite
def strategy_(draw, tier):
    mode = draw(st.sampled_from(["tree", "tree", "ts", "ts"]))
    if mode == "tree":
        ts = draw(G.single_tree(max_leaves=6, max_arity=4, max_muts_per_edge=4))
    else:
        ts = draw(G.general_ts(tier=tier, contemporaneous=True, single_root=True, min_muts=1,
                               max_n=8, max_trees=8))
    n = ts.num_nodes
    k = n - ts.num_samples
    space = draw(st.sampled_from(["linear", "logarithmic"]))
    case = dict(
        mode=mode, ts=ts, space=space,
        perm=draw(st.lists(st.integers(0, max(k - 1, 0)), min_size=max(k, 1), max_size=max(k, 1))),
        full_perm=draw(st.one_of(st.none(), st.lists(st.integers(0, 5), min_size=n, max_size=n))),
        ne=draw(st.sampled_from([0.5, 1.0, 100.0])),
        eps_exp=draw(st.integers(-8, -1)),
        rate=draw(st.sampled_from([0.3, 3.0, 30.0])),
        cache_inside=draw(st.booleans()),
        outside_standardize=draw(st.sampled_from([True, True, False])),
        n_points=draw(st.integers(2, 4)),
    )
    if mode == "tree":
        case["prior_kind"] = draw(st.sampled_from(["built", "built", "hand"]))
        g = draw(st.integers(3, 6))
        case["incs"] = draw(st.lists(st.sampled_from([0.1, 0.25, 0.5, 1.0, 2.0]), min_size=g - 1, max_size=g - 1))
        if case["prior_kind"] == "hand":
            case["vals"] = draw(st.lists(st.floats(0.01, 1.0, allow_nan=False), min_size=k * g, max_size=k * g))
            case["zero_pick"] = draw(st.lists(st.integers(0, 9), min_size=k * g, max_size=k * g))
    else:
        case["prior_kind"] = draw(st.sampled_from(["popsize", "built_int"]))
    return case


def strategy(tier):
    return strategy_(tier)


def variants(case):
    """list of (name, ts, mapping base->variant)"""
    ts = case["ts"]
    n = ts.num_nodes
    out = [("base", ts, np.arange(n, dtype=np.int32))]
    ts2, m2 = G.renumber_nonsamples(ts, case["perm"])
    if not np.array_equal(m2, np.arange(n)):
        out.append(("renumbered", ts2, m2))
    if case["full_perm"] is not None:
        ts3, m3 = S.renumber_all(ts, case["full_perm"])
        if not np.array_equal(m3, np.arange(n)):
            out.append(("renumbered_all", ts3, m3))
    r, _ = OR.oldest_root(ts)
    if r != n - 1:
        inv = np.arange(n, dtype=np.int32)
        inv[r], inv[n - 1] = n - 1, r
        ts4, m4 = S.apply_node_mapping(ts, inv)
        out.append(("canonical", ts4, m4))
    return out


def make_prior(case, ts_v, mapping):
    """prior object for one variant (always a fresh object: the run converts it in place)"""
    ne = case["ne"]
    if case["prior_kind"] == "popsize":
        return "ok", None
    if case["prior_kind"] == "built_int":
        return call(tsdate.build_prior_grid, ts_v, population_size=ne, timepoints=int(case["n_points"]))
    timepoints = 2.0 * ne * np.concatenate([[0.0], np.cumsum(case["incs"])])
    status, pr = call(tsdate.build_prior_grid, ts_v, population_size=ne, timepoints=timepoints)
    if status != "ok" or case["prior_kind"] == "built":
        return status, pr
    # hand-filled rows are attached to the nodes of the base numbering and follow them
    base = case["ts"]
    base_nodes = [u for u in range(base.num_nodes) if not base.node(u).is_sample()]
    g = len(pr.timepoints)
    vals = np.array(case["vals"], dtype=np.float64).reshape(len(base_nodes), g)
    zero = np.array(case["zero_pick"]).reshape(len(base_nodes), g) < 2
    vals = np.where(zero, 0.0, vals)
    vals[:, 0] = 0.0
    vals[:, -1] = np.array(case["vals"]).reshape(len(base_nodes), g)[:, -1]  # keeps Z > 0
    hp = pr.clone_with_new_data(grid_data=np.zeros_like(pr.grid_data))
    for i, u in enumerate(base_nodes):
        hp[int(mapping[u])] = vals[i]
    return "ok", hp


def run(case, ts_v, prior, eps, mu, ignore):
    kw = dict(mutation_rate=mu, eps=eps, probability_space=case["space"], cache_inside=case["cache_inside"],
              outside_standardize=case["outside_standardize"], ignore_oldest_root=ignore,
              return_fit=True, return_likelihood=True)
    if prior is None:
        kw["population_size"] = case["ne"]
    else:
        kw["priors"] = prior
    return call(tsdate.inside_outside, ts_v, **kw)


def post_array(fit, ts):
    return np.asarray(fit.node_posteriors()).view(np.float64).reshape(ts.num_nodes, -1)


def log_inside_of(fit, ts):
    ins = fit.inside
    out = {}
    for u in ins.nonfixed_nodes:
        row = np.array(ins[u], dtype=np.float64)
        if ins.probability_space == "linear":
            with np.errstate(divide="ignore"):
                row = np.log(row)
        out[int(u)] = row
    return out


def maxdiff(P, ref):
    """max abs difference over the nodes of dict `ref`; inf if P has non-finite entries there"""
    worst = 0.0
    for u, r in ref.items():
        d = np.abs(P[u] - r)
        if not np.all(np.isfinite(d)):
            return np.inf
        worst = max(worst, float(d.max()))
    return worst


def check(case, ctx):
    ts = case["ts"]
    mode = case["mode"]
    space = case["space"]
    n = ts.num_nodes
    if not (G.is_contemporaneous(ts) and G.single_rooted(ts)) or G.has_unary(ts):
        ctx.discard("outside the domain of the discrete methods")
        return []
    root, unique = OR.oldest_root(ts)
    if not unique:
        ctx.discard("oldest root is not unique (tied greatest time)")
        return []
    eps = 10.0 ** case["eps_exp"]
    ne = case["ne"]
    vs = variants(case)
    ctx.label("mode=" + mode, "space=" + space, "prior=" + case["prior_kind"],
              f"outside_standardize={case['outside_standardize']}", f"cache_inside={case['cache_inside']}",
              f"variants={len(vs)}")
    roots = set(int(t.root) for t in ts.trees())
    ctx.label(f"distinct_roots={min(len(roots), 4)}{'+' if len(roots) >= 4 else ''}")

    results = []
    out = []
    mu = None
    nontrivial_numbering = False
    for name, ts_v, mapping in vs:
        status, prior = make_prior(case, ts_v, mapping)
        if status != "ok":
            ctx.discard("build_prior_grid_" + status)
            return []
        if prior is not None and not np.all(np.isfinite(prior.grid_data)):
            ctx.discard("degenerate built prior (non-finite row)")
            return []
        if mu is None:
            tmax = float(prior.timepoints[-1]) if prior is not None else 6.0 * ne
            # largest Poisson mean ~ rate on an edge spanning the whole sequence
            mu = case["rate"] / (ts.sequence_length * tmax)
        rows = None
        if prior is not None and mode == "tree":
            rows = {int(u): np.array(prior[u], dtype=np.float64).copy() for u in prior.nonfixed_nodes}
        status, res = run(case, ts_v, prior, eps, mu, True)
        if status != "ok":
            # acceptance of valid input is C35's subject; an exception that depends on the numbering
            # would surface there and in C11
            ctx.discard(f"inside_outside_{status}:" + exc_key(res))
            return []
        dts, fit, lik = res
        P = post_array(fit, ts_v)
        nonsample = ~node_is_sample(ts_v)
        if not np.all(np.isfinite(P[nonsample])) or not np.isfinite(lik):
            ctx.discard("non-finite posterior (under/overflow regime, C12/C35)")
            return []
        root_v = int(mapping[root])
        last_is_root = root_v == ts_v.num_nodes - 1
        ctx.label(f"variant:{name}:" + ("root_last" if last_is_root else "root_not_last"))
        T = np.array(fit.lik.timepoints, dtype=np.float64)
        li = log_inside_of(fit, ts_v)

        if name == "base":
            # validate the re-stated outside recursion on this very case, option off
            status0, res0 = run(case, ts_v, make_prior(case, ts_v, mapping)[1], eps, mu, False)
            if status0 != "ok":
                ctx.discard(f"inside_outside_{status0}:" + exc_key(res0))
                return []
            P0 = post_array(res0[1], ts_v)
            ref0 = OR.reference_posteriors(ts_v, li, T, eps, mu, ignore_node=None)
            d0 = maxdiff(P0, ref0)
            ctx.extra["worst_ref_plain"] = [max(ctx.extra.get("worst_ref_plain", [0.0])[0], d0 if np.isfinite(d0) else -1.0)]
            if not d0 <= TOL:
                ctx.discard("re-stated outside pass does not reproduce the ignore_oldest_root=False run (not C38)")
                return []
            # judged on the references, not on the code under test: does leaving out the oldest
            # root's messages change some posterior by > 1e-6 ?
            ref_ign = OR.reference_posteriors(ts_v, li, T, eps, mu, ignore_node=int(mapping[root]))
            option_matters = max(float(np.abs(ref_ign[u] - ref0[u]).max()) for u in ref0) > 1e-6
            if option_matters:
                ctx.label("option_changes_posterior")

        # ---- R2: outside recursion without the oldest root's edges
        ref = OR.reference_posteriors(ts_v, li, T, eps, mu, ignore_node=root_v)
        d2 = maxdiff(P, ref)
        if last_is_root:
            ctx.extra["worst_R2_canonical"] = [max(ctx.extra.get("worst_R2_canonical", [0.0])[0], d2)]
        # ---- R1: brute force on single trees
        d1 = 0.0
        if mode == "tree" and rows is not None:
            model = BF.model_from_ts(ts_v)
            assert model.root == root_v
            exact = BF.enumerate_ignoring_messages_from(model, root_v, T, rows, eps, mu)
            d1 = maxdiff(P, exact)
            if last_is_root:
                ctx.extra["worst_R1_canonical"] = [max(ctx.extra.get("worst_R1_canonical", [0.0])[0], d1)]
        bad = (not d2 <= TOL) or (not d1 <= TOL)
        # F14 signature: the output is the one obtained by leaving out the edges of node
        # num_nodes-1 (which is not the oldest root) -- and is clearly closer to that than to
        # the statement's reference (also recognises effects below the tolerance, which can
        # still surface in the renumbering clause through the relative error of a node time)
        last = ts_v.num_nodes - 1
        f14_sig = False
        if not last_is_root:
            d_last = maxdiff(P, OR.reference_posteriors(ts_v, li, T, eps, mu, ignore_node=last))
            f14_sig = d_last <= TOL and max(d1, d2) > 1e-12 and 10 * d_last < max(d1, d2)
        flagged = False
        if bad:
            flagged = True
            if f14_sig:
                key = "ignores_last_node_instead_of_oldest_root"
            else:
                which = "R1_bruteforce" if not d1 <= TOL else "R2_outside_recursion"
                key = f"posterior_differs_from_{which}:" + ("root_last" if last_is_root else "root_not_last")
            out.append(Violation(
                key,
                f"variant {name} ({mode}): oldest root is node {root_v} (time {ts_v.nodes_time[root_v]!r}), "
                f"num_nodes-1 = {last}; posterior differs from 'oldest root's messages ignored' by "
                f"{max(d1, d2):.3g} (R1 {d1:.3g}, R2 {d2:.3g})",
                variant=name, d1=d1, d2=d2))
        if not last_is_root:
            nontrivial_numbering = True
        results.append(dict(name=name, ts=ts_v, mapping=mapping, P=P, lik=float(lik), flagged=flagged, f14_sig=f14_sig,
                            times=np.array(dts.nodes_time), last_is_root=last_is_root))

    # ---- (M) renumbering invariance between variants
    ref_res = next((r for r in results if r["last_is_root"]), results[0])
    for r in results:
        if r is ref_res:
            continue
        mp_ref, mp = ref_res["mapping"], r["mapping"]
        # node u of the base is mp_ref[u] in the reference variant and mp[u] in r
        Pa, Pb = ref_res["P"][mp_ref], r["P"][mp]
        ta, tb = ref_res["times"][mp_ref], r["times"][mp]
        ns = ~node_is_sample(ts)
        dp = float(np.abs(Pa[ns] - Pb[ns]).max())
        dtm = float(np.max(np.abs(ta - tb) / np.maximum(np.maximum(np.abs(ta), np.abs(tb)), eps)))
        dl = abs(ref_res["lik"] - r["lik"]) / max(abs(ref_res["lik"]), 1e-300) if space == "linear" else \
            abs(ref_res["lik"] - r["lik"]) / max(1.0, abs(ref_res["lik"]))
        ctx.extra["worst_renumbering"] = [max(ctx.extra.get("worst_renumbering", [0.0])[0], 0.0 if (r["flagged"] or ref_res["flagged"] or r["f14_sig"] or ref_res["f14_sig"]) else max(dp, dtm, dl))]
        if dl > TOL:
            # the likelihood comes from the inside pass alone: plain renumbering defect (C11)
            ctx.discard("likelihood changes under renumbering (C11, not C38)")
            continue
        if max(dp, dtm) > TOL:
            if r["flagged"] or ref_res["flagged"]:
                continue  # same root cause, already reported for that variant
            if r["f14_sig"] or ref_res["f14_sig"]:
                if not any(v.key == "ignores_last_node_instead_of_oldest_root" for v in out):
                    out.append(Violation(
                        "ignores_last_node_instead_of_oldest_root",
                        f"{ref_res['name']} vs {r['name']}: posteriors differ by {dp:.3g}, node times by {dtm:.3g} "
                        f"(rel); the output carries the signature of node num_nodes-1 being ignored", dp=dp, dt=dtm))
                continue
            both_last = r["last_is_root"] and ref_res["last_is_root"]
            out.append(Violation(
                "renumbering_changes_result:" + ("root_last_in_both" if both_last else "root_not_last"),
                f"{ref_res['name']} vs {r['name']}: posteriors differ by {dp:.3g}, node times by {dtm:.3g} (rel)",
                dp=dp, dt=dtm))
    if nontrivial_numbering and option_matters and (n - ts.num_samples) >= 2:
        ctx.mark_nontrivial()
    return out


def finish(ctx, tier):
    for kk in ("worst_ref_plain", "worst_R2_canonical", "worst_R1_canonical", "worst_renumbering"):
        if isinstance(ctx.extra.get(kk), list):
            ctx.extra[kk] = max(ctx.extra[kk])


def describe(case):
    d = {kk: v for kk, v in case.items() if kk not in ("ts", "vals", "zero_pick")}
    d["ts"] = G.ts_summary(case["ts"])
    return d
