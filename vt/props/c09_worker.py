"""Worker for C09's fresh-process sub-check: runs every call of a batch and prints the
SHA-256 of each output's tables. Started with a given PYTHONHASHSEED."""

import json
import os
import sys


def main():
    d, n = sys.argv[1], int(sys.argv[2])
    import tskit

    import tsdate
    from vt.common import call
    from vt.props.c09 import _digest_ts, build_kwargs

    k = int(sys.argv[3]) if len(sys.argv) > 3 else 0
    order = list(range(n))
    if k % 4 == 1:
        order.reverse()
    elif k % 4 == 2:
        order = order[n // 2:] + order[:n // 2]
    elif k % 4 == 3:
        order = order[1::2] + order[0::2]
    out = {}
    for i in order:
        ts = tskit.load(os.path.join(d, f"{i}.trees"))
        with open(os.path.join(d, f"{i}.json")) as f:
            cfg = json.load(f)
        status, res = call(lambda: tsdate.date(ts, **build_kwargs(cfg, ts)))
        out[str(i)] = _digest_ts(res) if status == "ok" else f"{status}:{type(res).__name__}"
    print("DIGESTS " + json.dumps(out))


if __name__ == "__main__":
    main()
