"""C16 -- discretised prior grids hold the right probability masses.

Oracle (R/I): the timegrid is strictly increasing, starts at 0 and is the user's grid when one is
given; every non-sample row equals [0, diff(F(tau))] / max(diff(F(tau))), F being the lognormal /
gamma cdf (scipy.special primitives ndtr / gammainc, not scipy.stats) of the node's prior parameters,
which are themselves recomputed independently (per-tree span count + exact conditional-coalescent
moments, vt.oracle.coalescent_e), on the coalescent-scale grid obtained with the exact rational
time transform (vt.oracle.demography_e).  nonfixed_nodes is the non-sample set; a sample index
returns a scalar.
"""

import warnings
from fractions import Fraction

import mpmath
import numpy as np
import scipy.special
from hypothesis import strategies as st

import tsdate
from tsdate import demography

from vt.common import call, exc_key, node_is_sample
from vt.gen import ts as G
from vt.gen.history_e import history_
from vt.oracle import coalescent_e as CO
from vt.oracle import demography_e as E
from vt.runner import Violation

ID = "C16"
LEVEL = "exploration"
RULE = (
    "cases = contemporaneous simplified one-root tree sequences (optionally with missing-data intervals) x "
    "population size given as float | int | PopulationSizeHistory (1..6 epochs, sizes 10^U(1,6)) | dict | "
    "1-element array x timepoints int (2..30) or explicit array (log / linear / integer grids incl. the epoch "
    "breaks, unsorted, float64/int32/int64) x lognorm | gamma. non-trivial = explicit grid, or >= 2 epochs, or a "
    "node whose prior is a missing-data mixture; distinct by SHA-1 of the case"
)
ASSUMPTIONS = [
    "user grids contain 0, have relative spacing >= 1e-6 and lie within [1e-3, 30] coalescent units of epoch 0 "
    "(plus the epoch breaks): grids on which every cdf value under/overflows are not generated",
    "rows are compared after normalisation to max 1 with absolute tolerance 1e-9 (calibration worst 2e-13 on "
    "well-conditioned histories) plus the effect, on the interval masses, of the rounding uncertainty of the "
    "coalescent-scale grid (C17 bounds): with size ratios ~4000 the generation-scale grid returned for integer "
    "`timepoints` is off by ~3e-13 relative, which a steep epoch change turns into 1e-9 on tau (observed row "
    "difference 1.6e-9)",
    "returned grid vs user grid: hard bound = rounding bound of the generations->coalescent->generations round "
    "trip (vt.oracle.demography_e.round_trip_bound); bit-for-bit equality is reported separately "
    "(timepoints:not_bit_exact, listed as a known finding)",
    "approximate_priors=False only; for integer `timepoints` the quantile grid itself is not predicted, only its "
    "validity (increasing, starts at 0) and the masses on it are judged",
    "scipy.special.ndtr / gammainc, fractions, mpmath, tskit trusted",
]

# calibration on the unchanged tree (quick tier, seeds 1-5): worst |row - oracle| 2e-13; worst relative
# difference between returned and user grid 4.4e-16 (1 epoch), 3e-13 (multi-epoch, size ratio <= 1e5)
TOL_ROW = 1e-9
EPS = 2.0 ** -52


def budget(tier):
    if tier == "quick":
        return dict(examples=120, shards=4)
    return dict(examples=2000, shards=16)


# ---------------------------------------------------------------------------
# generator
# ---------------------------------------------------------------------------


@st.composite
def strategy_(draw, tier):
    ts = draw(G.general_ts(tier=tier, contemporaneous=True, single_root=True, min_muts=0,
                           missing=draw(st.booleans())))
    h = draw(history_(max_epochs=6, styles=("realistic", "moderate", "narrow")))
    ne = len(h["sizes"])
    if ne == 1:
        pop_kind = draw(st.sampled_from(["float", "float", "int", "hist", "dict", "array1"]))
    else:
        pop_kind = draw(st.sampled_from(["hist", "hist", "dict"]))
    if pop_kind == "int":
        h["sizes"] = [float(max(1, round(h["sizes"][0])))]
    distr = draw(st.sampled_from(["lognorm", "gamma"]))
    tp_kind = draw(st.sampled_from(["int", "log", "log", "linear", "integer"]))
    tp = dict(kind=tp_kind)
    if tp_kind == "int":
        tp["n"] = draw(st.sampled_from([2, 3, 5, 10, 20, 30]))
    else:
        m = draw(st.integers(1, 24))
        if tp_kind == "log":
            tp["exps"] = draw(st.lists(st.floats(-3, 1.5, allow_nan=False), min_size=m, max_size=m))
        elif tp_kind == "linear":
            tp["top"] = draw(st.floats(-1.5, 1.5, allow_nan=False))
            tp["m"] = m + 1
        else:
            tp["top"] = draw(st.floats(-1.0, 1.3, allow_nan=False))
            tp["m"] = m + 1
            tp["dtype"] = draw(st.sampled_from(["float64", "int64", "int32"]))
        tp["with_breaks"] = draw(st.booleans())
        tp["perm"] = draw(st.lists(st.integers(0, 1000), min_size=0, max_size=6))
    return dict(ts=ts, sizes=h["sizes"], breaks=h["breaks"], pop_kind=pop_kind, distr=distr, tp=tp)


def strategy(tier):
    return strategy_(tier)


def user_grid(case):
    """-> numpy array as passed by the user (may be unsorted / integer typed), or an int"""
    tp = case["tp"]
    if tp["kind"] == "int":
        return int(tp["n"])
    S = 2.0 * case["sizes"][0]  # generations per coalescent unit in epoch 0
    if tp["kind"] == "log":
        pts = [S * 10.0 ** e for e in tp["exps"]]
    elif tp["kind"] == "linear":
        pts = list(np.linspace(0, S * 10.0 ** tp["top"], tp["m"] + 1)[1:])
    else:
        top = max(2.0, np.ceil(S * 10.0 ** tp["top"]))
        pts = sorted(set(float(np.ceil(x)) for x in np.linspace(0, top, tp["m"] + 1)[1:]))
    if tp["with_breaks"] and tp["kind"] != "integer":
        pts += list(case["breaks"])
    elif tp["with_breaks"]:
        pts += [b for b in case["breaks"] if float(b).is_integer()]
    pts = sorted(set(float(p) for p in pts if p > 0 and np.isfinite(p)))
    # enforce relative spacing >= 1e-6
    keep = []
    for p in pts:
        if not keep or p > keep[-1] * (1 + 1e-6):
            keep.append(p)
    arr = [0.0] + keep
    for a, b in enumerate(tp["perm"]):
        i, j = a % len(arr), b % len(arr)
        arr[i], arr[j] = arr[j], arr[i]
    dtype = tp.get("dtype", "float64")
    return np.array(arr, dtype=dtype)


def population_argument(case):
    sizes, breaks, kind = case["sizes"], case["breaks"], case["pop_kind"]
    if kind == "float":
        return float(sizes[0])
    if kind == "int":
        return int(sizes[0])
    if kind == "array1":
        return np.array([sizes[0]])
    if kind == "dict":
        d = {"population_size": list(sizes)}
        if breaks:
            d["time_breaks"] = list(breaks)
        return d
    return demography.PopulationSizeHistory(np.array(sizes), np.array(breaks))


def cdf(distr, alpha, beta, tau):
    """F(tau) for lognormal (log-mean alpha, log-VARIANCE beta) or gamma (shape alpha, rate beta)"""
    tau = np.asarray(tau, dtype=float)
    out = np.zeros_like(tau)
    pos = tau > 0
    if distr == "lognorm":
        out[pos] = scipy.special.ndtr((np.log(tau[pos]) - alpha) / np.sqrt(beta))
    else:
        out[pos] = scipy.special.gammainc(alpha, beta * tau[pos])
    return out


# ---------------------------------------------------------------------------


def check(case, ctx):
    ts = case["ts"]
    distr = case["distr"]
    sizes, breaks = case["sizes"], case["breaks"]
    ne = len(sizes)
    grid_in = user_grid(case)
    explicit = not isinstance(grid_in, int)
    pop = population_argument(case)
    ctx.label("pop=" + case["pop_kind"], f"epochs={ne}", "tp=" + case["tp"]["kind"], "distr=" + distr)
    with warnings.catch_warnings(), np.errstate(all="ignore"):
        warnings.simplefilter("ignore")
        status, prior = call(tsdate.build_prior_grid, ts, pop,
                             timepoints=grid_in.copy() if explicit else grid_in, prior_distribution=distr)
    if status == "rejected":
        ctx.discard("rejected:" + str(prior)[:40])
        return []
    if status != "ok":
        if case["pop_kind"] == "dict" and isinstance(prior, AttributeError):
            ctx.label("dict_attribute_error")
            return [Violation("population_size_dict:AttributeError", "build_prior_grid(ts, <dict>) raised "
                              f"{prior!r}; its docstring allows 'a parameter dictionary passed to initialise a "
                              "PopulationSizeHistory object'", population_size=pop)]
        return [Violation("build_prior_grid_raised:" + exc_key(prior), f"build_prior_grid raised {prior!r}")]

    out = []
    X = E.ExactHistory(sizes, breaks)
    K = 8 + 2 * ne
    is_s = node_is_sample(ts)
    nonsample = [u for u in range(ts.num_nodes) if not is_s[u]]
    spans, _total, per_tree_T = CO.brute_force_spans(ts)
    mixture = any(len(spans.get(u, {})) > 1 for u in nonsample)
    if explicit or ne >= 2 or mixture:
        ctx.mark_nontrivial()
    if mixture:
        ctx.label("mixture_node")

    # --- time grid -------------------------------------------------------------
    tp = np.asarray(prior.timepoints)
    if tp.ndim != 1 or len(tp) < 2 or not np.all(np.isfinite(tp)):
        return [Violation("timepoints:malformed", f"timepoints = {tp!r}")]
    if tp[0] != 0.0:
        out.append(Violation("timepoints:first_not_0", f"timepoints[0] = {tp[0]!r}"))
    if not np.all(np.diff(tp) > 0):
        i = int(np.flatnonzero(~(np.diff(tp) > 0))[0])
        out.append(Violation("timepoints:not_strictly_increasing", f"timepoints[{i}:{i + 2}] = {tp[i:i + 2]!r}"
                             + (f" (user grid {np.sort(grid_in.astype(float))[i:i + 2]!r})" if explicit else "")))
    if explicit:
        want = np.sort(grid_in.astype(float))
        if len(tp) != len(want):
            return out + [Violation("timepoints:length", f"{len(tp)} timepoints returned for a user grid of {len(want)}")]
        bound = np.array([E.round_trip_bound(X, Fraction(float(t)), K) for t in want])
        bad = np.abs(tp - want) > bound
        if bad.any():
            i = int(np.flatnonzero(bad)[0])
            out.append(Violation("timepoints:not_user_grid", f"user timepoint {want[i]!r} came back as {tp[i]!r} "
                                 f"(allowed round-trip rounding {bound[i]:.3g})", sizes=sizes, breaks=breaks))
        elif not np.array_equal(tp, want):
            i = int(np.flatnonzero(tp != want)[0])
            rel = float(np.max(np.abs(tp[1:] - want[1:]) / want[1:]))
            _note(ctx, "worst_rel_diff_returned_vs_user_grid", rel)
            ctx.label("grid_not_bit_exact")
            out.append(Violation("timepoints:not_bit_exact", f"user timepoint {want[i]!r} came back as {tp[i]!r}: the "
                                 "grid is converted to coalescent units and back instead of being kept "
                                 f"(max relative difference {rel:.3g})", sizes=sizes, breaks=breaks))
        tau = np.array([float(X.to_coal(Fraction(float(t)))) for t in want])
        # the code evaluates the cdf at its float image of the user grid: within coal_bound of tau
        dtau = np.array([X.coal_bound(Fraction(float(t)), K) for t in want])
    else:
        # the coalescent-scale quantile grid is internal; it is recovered from the returned generation-scale
        # grid, which the code obtained with to_natural_timescale (error <= nat_bound, C17): map that
        # uncertainty back to coalescent units with the exact transform
        tau = np.array([float(X.to_coal(Fraction(float(t)))) for t in tp])
        dtau = np.zeros(len(tp))
        for i, t in enumerate(tp):
            tf = Fraction(float(t))
            nb = Fraction(X.nat_bound(X.to_coal(tf), K))
            dtau[i] = float(X.to_coal(tf + nb) - X.to_coal(max(Fraction(0), tf - nb)))

    # --- container --------------------------------------------------------------
    if sorted(int(u) for u in prior.nonfixed_nodes) != nonsample or len(prior.nonfixed_nodes) != len(nonsample):
        out.append(Violation("nonfixed_nodes", f"nonfixed_nodes = {sorted(int(u) for u in prior.nonfixed_nodes)[:8]}..., "
                             f"non-sample nodes = {nonsample[:8]}..."))
        return out
    if prior.grid_data.shape != (len(nonsample), len(tp)):
        out.append(Violation("grid_data:shape", f"grid_data has shape {prior.grid_data.shape}, expected "
                             f"{(len(nonsample), len(tp))}"))
        return out
    for s in np.flatnonzero(is_s)[:4]:
        v = prior[int(s)]
        if np.ndim(v) != 0:
            out.append(Violation("sample_has_row", f"prior[{s}] (a sample) is {v!r}, not a scalar"))
            break

    # --- rows ---------------------------------------------------------------------
    worst = 0.0
    worst_excess = 0.0
    with mpmath.workdps(30):
        for u in nonsample:
            if u not in spans:
                continue
            m, v = CO.mixture_moments(spans[u])
            a, b = CO.params_from_moments(distr, CO.frac_to_mpf(m), CO.frac_to_mpf(v))
            a, b = float(a), float(b)
            F = cdf(distr, a, b, tau)
            mass = np.concatenate([[0.0], np.diff(F)])
            top = mass.max()
            # uncertainty of each cdf value from the uncertainty of tau (see above) and of the cdf itself
            dF = np.abs(cdf(distr, a, b, tau + dtau) - cdf(distr, a, b, np.maximum(tau - dtau, 0.0))) + 64 * EPS
            dmass = np.concatenate([[0.0], dF[1:] + dF[:-1]])
            row = np.asarray(prior[u], dtype=float)
            if not top > 0:
                ctx.discard("degenerate_grid_all_mass_zero")
                continue
            want_row = mass / top
            if row.shape != want_row.shape or not np.all(np.isfinite(row)):
                out.append(Violation("row:nonfinite_or_shape", f"node {u}: row {row!r}"))
                break
            if row[0] != 0.0:
                out.append(Violation("row:time0_not_zero", f"node {u}: row[0] = {row[0]!r}"))
                break
            if abs(row.max() - 1.0) > 1e-12:
                out.append(Violation("row:max_not_1", f"node {u}: largest entry {row.max()!r}"))
                break
            tol = TOL_ROW + 2.0 * (dmass + dmass[int(np.argmax(mass))]) / top
            err = float(np.max(np.abs(row - want_row)))
            worst = max(worst, err)
            worst_excess = max(worst_excess, float(np.max(np.abs(row - want_row) / tol)))
            if np.any(np.abs(row - want_row) > tol):
                i = int(np.argmax(np.abs(row - want_row) / tol))
                out.append(Violation(f"row:mass:{distr}", f"node {u} ({distr} alpha={a!r} beta={b!r}): entry {i} is "
                                     f"{row[i]!r}, interval mass / max mass is {want_row[i]!r} "
                                     f"(tau interval {tau[max(i - 1, 0)]!r}..{tau[i]!r})", node=u))
                break
    _note(ctx, "worst_row_abs_err", worst)
    _note(ctx, "worst_row_err_over_tolerance", worst_excess)
    return out


_WORST = {}


def _note(ctx, name, value):
    if value > _WORST.get(name, -1.0):
        _WORST[name] = value
        ctx.extra[name] = [value]


def finish(ctx, tier):
    for name in ("worst_row_abs_err", "worst_row_err_over_tolerance", "worst_rel_diff_returned_vs_user_grid"):
        v = ctx.extra.get(name)
        if isinstance(v, list) and v:
            ctx.extra[name] = max(v)


def describe(case):
    g = user_grid(case)
    return dict(ts=G.ts_summary(case["ts"]), sizes=case["sizes"], breaks=case["breaks"], pop=case["pop_kind"],
                distr=case["distr"], timepoints=g if isinstance(g, int) else [float(x) for x in g[:8]])
