"""C17 -- population-size time transforms are exact and mutually inverse.

Oracle (R): vt/oracle/demography_e.py -- the piecewise integral of 1/(2N) and its inverse in exact
rationals (positive-term sums), rounding bounds from the partial sums of the float formula, and the
moments of the mapped gamma in mpmath (closed form, cross-checked by quadrature on a drawn subset).
"""

import warnings
from fractions import Fraction

import mpmath
import numpy as np
from hypothesis import strategies as st

import tsdate
from tsdate import demography

from vt.common import call, exc_key, node_is_sample
from vt.gen import ts as G
from vt.oracle import coalescent_e as CO
from vt.oracle import demography_e as E
from vt.runner import Violation

ID = "C17"
LEVEL = "exploration"
NO_SHRINK = False
RULE = (
    "cases = (history with 1..8 epochs, sizes 10^U over a drawn range within [1e-2, 1e9], breaks increasing "
    "within [1e-3, 1e12], sorted time vector with 0, the breaks, their one-ulp neighbours, relative offsets and "
    "huge values; gamma (shape 10^U(-1,2), mean placed relative to a coalescent break)); plus "
    "build_parameter_grid rows on generated tree sequences. non-trivial = >= 2 epochs with size ratio >= 10; "
    "distinct by SHA-1 of the case"
)
ASSUMPTIONS = [
    "transform errors are judged against the rounding bound K*eps*(sum of |terms| of t/M_idx + step[idx]), "
    "K = 8 + 2*epochs (calibration: worst observed 1.8*eps*sum over 3000 histories); the round trip is therefore "
    "only required to the conditioning of that formula (observed relative error ~1e-16 * N_max/N_min)",
    "gamma moments: 1e-8 relative, widened to the rounding model 64*eps*amp*sum|terms|/value of the closed-form "
    "sum where that is larger (cancellation is accepted, a useless result is not: gamma:gross_cancellation); "
    "one epoch: 1e-9 relative on (shape, rate/(2N)) (calibration worst 3.3e-12)",
    "mpmath, fractions, numpy trusted",
]

TOL_GAMMA = 1e-8
TOL_ONE_EPOCH = 1e-9
GROSS = 1e-2
EPS = 2.0 ** -52


def budget(tier):
    if tier == "quick":
        return dict(examples=130, shards=4)
    return dict(examples=2500, shards=16)


# ---------------------------------------------------------------------------
# generator
# ---------------------------------------------------------------------------

from vt.gen.history_e import history_  # noqa: E402


@st.composite
def strategy_(draw, tier):
    mode = draw(st.sampled_from(["hist"] * 7 + ["paramgrid"]))
    if mode == "paramgrid":
        ts = draw(G.general_ts(tier=tier, contemporaneous=True, single_root=True, min_muts=0,
                               missing=draw(st.booleans())))
        h = draw(history_(max_epochs=5, styles=("realistic", "narrow")))
        return dict(mode=mode, ts=ts, sizes=h["sizes"], breaks=h["breaks"], style=h["style"],
                    as_float=draw(st.booleans()))
    h = draw(history_())
    ne = len(h["sizes"])
    # extra time points: (kind, a, b)
    pts = []
    for _ in range(draw(st.integers(3, 10))):
        kind = draw(st.sampled_from(["abs", "rel", "rel", "huge"]))
        if kind == "abs":
            pts.append(("abs", draw(st.floats(-4, 10, allow_nan=False)), 0))
        elif kind == "huge":
            pts.append(("abs", draw(st.floats(10, 15, allow_nan=False)), 0))
        else:
            pts.append(("rel", draw(st.integers(0, max(0, ne - 2))), draw(st.sampled_from(
                [-1e-3, -1e-9, -1e-14, 1e-14, 1e-9, 1e-3, 0.5, 1.0, -0.5]))))
    shape = 10.0 ** draw(st.floats(-1, 2, allow_nan=False))
    gamma = dict(shape=shape, ref=draw(st.integers(0, max(0, ne - 1))),
                 logmult=draw(st.sampled_from([-3.0, -2.0, -1.0, -0.3, 0.0, 0.0, 0.3, 1.0, 2.0, 3.0]))
                 + draw(st.floats(-0.5, 0.5, allow_nan=False)),
                 np_scalar=draw(st.booleans()), quad=draw(st.integers(0, 7)) == 0)
    ctor = draw(st.sampled_from(["list", "array", "array", "scalar"]))
    return dict(mode=mode, sizes=h["sizes"], breaks=h["breaks"], style=h["style"], pts=pts, gamma=gamma,
                ctor=ctor)


def strategy(tier):
    return strategy_(tier)


# ---------------------------------------------------------------------------
# checks
# ---------------------------------------------------------------------------

_RT_WORST = {}
_GAMMA_WORST = {}


def _ratio_class(sizes):
    r = max(sizes) / min(sizes)
    return int(np.ceil(np.log10(r))) if r > 1 else 0


def make_history(case):
    sizes, breaks = case["sizes"], case["breaks"]
    ctor = case.get("ctor", "array")
    if len(sizes) == 1 and ctor == "scalar":
        return call(demography.PopulationSizeHistory, float(sizes[0]))
    if ctor == "list":
        return call(demography.PopulationSizeHistory, list(sizes), list(breaks))
    return call(demography.PopulationSizeHistory, np.array(sizes), np.array(breaks))


def time_vector(case):
    breaks = case["breaks"]
    ts = [0.0]
    for b in breaks:
        ts += [b, float(np.nextafter(b, 0.0)), float(np.nextafter(b, np.inf))]
    for kind, a, b in case["pts"]:
        if kind == "abs":
            ts.append(10.0 ** a)
        elif breaks:
            ts.append(breaks[min(a, len(breaks) - 1)] * (1.0 + b))
        else:
            ts.append(10.0 ** (3 * b))
    ts = [t for t in ts if t >= 0 and np.isfinite(t)]
    return np.array(sorted(set(ts)), dtype=float)


def check(case, ctx):
    if case["mode"] == "paramgrid":
        return check_paramgrid(case, ctx)
    out = []
    sizes, breaks = case["sizes"], case["breaks"]
    ne = len(sizes)
    K = 8 + 2 * ne
    cls = _ratio_class(sizes)
    ctx.label(f"epochs={ne}", f"style={case['style']}", f"log10_size_ratio<={cls}")
    if ne >= 2 and max(sizes) / min(sizes) >= 10:
        ctx.mark_nontrivial()
    status, h = make_history(case)
    if status != "ok":
        return [Violation("constructor_raised:" + exc_key(h), f"valid history rejected: {h!r}")]
    X = E.ExactHistory(sizes, breaks)

    # stored arrays
    if not (np.array_equal(h.time_breaks, np.array([0.0] + list(breaks)))
            and np.array_equal(h.population_size, 2 * np.array(sizes))):
        out.append(Violation("stored_arrays", "time_breaks / population_size attributes differ from the input"))
    for j in range(ne):
        err = abs(float(Fraction(float(h.coalescent_breaks[j])) - X.cb[j]))
        if err > X.coal_bound(X.b[j], K):
            out.append(Violation("coalescent_breaks", f"coalescent break {j}: {h.coalescent_breaks[j]!r} vs exact "
                                 f"{float(X.cb[j])!r}"))
            break

    # generations -> coalescent units
    t = time_vector(case)
    status, f = call(h.to_coalescent_timescale, t.copy())
    if status != "ok":
        return out + [Violation("to_coalescent_raised:" + exc_key(f), f"to_coalescent_timescale raised {f!r}")]
    f = np.asarray(f, dtype=float)
    if f.shape != t.shape or not np.all(np.isfinite(f)):
        return out + [Violation("to_coalescent_shape_or_nonfinite", f"result {f!r}")]
    if f[0] != 0.0:
        out.append(Violation("to_coalescent:f(0)!=0", f"f(0) = {f[0]!r}"))
    f_exact = [X.to_coal(Fraction(float(x))) for x in t]
    Bc = [X.coal_bound(Fraction(float(x)), K) for x in t]
    for i in range(len(t)):
        err = abs(float(Fraction(float(f[i])) - f_exact[i]))
        if err > Bc[i]:
            out.append(Violation("to_coalescent:value", f"t={t[i]!r}: got {f[i]!r}, integral of 1/(2N) is "
                                 f"{float(f_exact[i])!r} (error {err:.3g}, rounding bound {Bc[i]:.3g})",
                                 sizes=sizes, breaks=breaks))
            break
    ep = [X.epoch_of_time(Fraction(float(x))) for x in t]
    for i in range(len(t) - 1):
        d = f[i + 1] - f[i]
        if ep[i] == ep[i + 1] and d < 0:
            out.append(Violation("to_coalescent:not_monotone_within_epoch", f"f({t[i]!r}) > f({t[i + 1]!r})"))
            break
        if d < -(Bc[i] + Bc[i + 1]):
            out.append(Violation("to_coalescent:not_monotone", f"f({t[i]!r})={f[i]!r} > f({t[i + 1]!r})={f[i + 1]!r}"))
            break
        if float(f_exact[i + 1] - f_exact[i]) > 2 * (Bc[i] + Bc[i + 1]) and not d > 0:
            out.append(Violation("to_coalescent:not_strictly_increasing", f"f({t[i]!r}) >= f({t[i + 1]!r})"))
            break

    # coalescent units -> generations, on the images and around the coalescent breaks
    taus = list(f)
    for c in h.coalescent_breaks[1:]:
        taus += [float(c), float(np.nextafter(c, 0.0)), float(np.nextafter(c, np.inf))]
    taus = np.array(sorted(set(taus)), dtype=float)
    status, g = call(h.to_natural_timescale, taus.copy())
    if status != "ok":
        return out + [Violation("to_natural_raised:" + exc_key(g), f"to_natural_timescale raised {g!r}")]
    g = np.asarray(g, dtype=float)
    if g.shape != taus.shape or not np.all(np.isfinite(g)):
        return out + [Violation("to_natural_shape_or_nonfinite", f"result {g!r}")]
    if taus[0] == 0.0 and g[0] != 0.0:
        out.append(Violation("to_natural:g(0)!=0", f"g(0) = {g[0]!r}"))
    g_exact = [X.to_nat(Fraction(float(x))) for x in taus]
    Bn = [X.nat_bound(Fraction(float(x)), K) for x in taus]
    for i in range(len(taus)):
        err = abs(float(Fraction(float(g[i])) - g_exact[i]))
        if err > Bn[i]:
            out.append(Violation("to_natural:value", f"tau={taus[i]!r}: got {g[i]!r}, inverse of the integral is "
                                 f"{float(g_exact[i])!r} (error {err:.3g}, rounding bound {Bn[i]:.3g})",
                                 sizes=sizes, breaks=breaks))
            break
    for i in range(len(taus) - 1):
        if g[i + 1] - g[i] < -(Bn[i] + Bn[i + 1]):
            out.append(Violation("to_natural:not_monotone", f"g({taus[i]!r})={g[i]!r} > g({taus[i + 1]!r})={g[i + 1]!r}"))
            break

    # round trip
    status, rt = call(h.to_natural_timescale, f.copy())
    if status == "ok":
        rt = np.asarray(rt, dtype=float)
        worst = 0.0
        for i in range(len(t)):
            ti = Fraction(float(t[i]))
            bc = Fraction(Bc[i])
            slack = max(X.to_nat(f_exact[i] + bc) - ti, ti - X.to_nat(max(Fraction(0), f_exact[i] - bc)))
            bound = X.nat_bound(Fraction(float(f[i])), K) + float(slack)
            err = abs(float(Fraction(float(rt[i])) - ti))
            if err > bound:
                out.append(Violation("round_trip", f"t={t[i]!r} -> {f[i]!r} -> {rt[i]!r} (error {err:.3g}, bound "
                                     f"{bound:.3g})", sizes=sizes, breaks=breaks))
                break
            if t[i] > 0:
                worst = max(worst, err / t[i])
        if worst > _RT_WORST.get(cls, 0.0):
            _RT_WORST[cls] = worst
            ctx.extra["round_trip_worst_rel_err_by_log10_size_ratio"] = [[k, v] for k, v in sorted(_RT_WORST.items())]

    # as_dict
    status, h2 = call(lambda: demography.PopulationSizeHistory(**h.as_dict()))
    if status != "ok":
        out.append(Violation("as_dict_rebuild_raised:" + exc_key(h2), f"PopulationSizeHistory(**as_dict()) raised {h2!r}"))
    else:
        for name in ("time_breaks", "population_size", "coalescent_breaks", "coalescent_rate"):
            if not np.array_equal(getattr(h, name), getattr(h2, name)):
                out.append(Violation("as_dict_not_identical", f"attribute {name} differs after rebuilding from as_dict()"))
                break

    out += check_gamma(case, ctx, h, X)
    return out


def _gamma_case(case, X):
    gm = case["gamma"]
    shape = float(gm["shape"])
    if X.E > 1:
        ref = float(X.cb[max(1, min(gm["ref"], X.E - 1))])
    else:
        ref = 1.0
    rate = shape / (ref * 10.0 ** gm["logmult"])
    return shape, rate


def judge_gamma(got, X, shape, rate, where):
    """got = (new_shape, new_rate) from the code -> (violations, rel err mean, rel err var, ill_conditioned).

    Tolerance: 1e-8 relative, or -- where larger -- 64*eps*amp*S/value, S being the sum of the magnitudes of the
    terms the float formula adds up (E.gamma_term_magnitudes) and amp the exp/log amplification.  Calibration
    (4000 histories, unchanged tree): errors up to 9e-10 for size ratios <= 1e3 with the mass inside the early
    epochs, but 1e-8..1e-5 as soon as a late epoch has c_j^2 = (b_j - 2N_j*cb_j)^2 >> variance (cancellation of
    cdf differences near 1), e.g. sizes [10,10,10,1e4], breaks [1,2,4], gamma(1, 200): variance off by 1.06e-8.
    Such rounding is accepted; a result that is useless (non-finite, non-positive, or off by > 1 %) is reported
    under `gamma:gross_cancellation` even when the model explains it."""
    import math

    out = []
    ns, nr = float(got[0]), float(got[1])
    m_ref, v_ref = X.gamma_mapped_moments_closed(shape, rate)
    valid = bool(np.isfinite(ns) and np.isfinite(nr) and ns > 0 and nr > 0)
    if valid:
        em = float(abs(mpmath.mpf(ns) / nr - m_ref) / m_ref)
        ev = float(abs(mpmath.mpf(ns) / (mpmath.mpf(nr) ** 2) - v_ref) / v_ref)
    else:
        em = ev = float("inf")
    sm, sv = E.gamma_term_magnitudes(X, shape, rate)
    amp = 4.0 + abs(shape * math.log(rate)) + abs(math.lgamma(shape + 2))
    pm = float(64 * EPS * amp * sm / m_ref)
    pv = float(64 * EPS * amp * sv / v_ref)
    ill = bool(max(pm, pv) > TOL_GAMMA)
    detail = dict(sizes=[float(x) for x in X.N], breaks=[float(x) for x in X.b[1:]], shape=shape, rate=rate)
    msg = (f"{where}: gamma(shape={shape!r}, rate={rate!r}) -> ({ns!r}, {nr!r}); mapped variable has mean "
           f"{mpmath.nstr(m_ref, 15)}, variance {mpmath.nstr(v_ref, 15)}; rel err mean {em:.3g}, variance {ev:.3g} "
           f"(rounding model {pm:.2g} / {pv:.2g})")
    if not valid or em > GROSS or ev > GROSS:
        explained = (valid and em <= max(pm, TOL_GAMMA) and ev <= max(pv, TOL_GAMMA)) or (not valid and pv >= 0.05)
        out.append(Violation("gamma:gross_cancellation" if explained else "gamma:mismatch", msg, **detail))
    elif em > max(TOL_GAMMA, pm):
        out.append(Violation("gamma:mean:mismatch", msg, **detail))
    elif ev > max(TOL_GAMMA, pv):
        out.append(Violation("gamma:var:mismatch", msg, **detail))
    return out, em, ev, ill


def check_gamma(case, ctx, h, X):
    out = []
    gm = case["gamma"]
    shape, rate = _gamma_case(case, X)
    if not (np.isfinite(rate) and rate > 0):
        ctx.discard("gamma_rate_out_of_range")
        return out
    risk = E.gamma_overflow_risk(shape, rate)
    args = (np.float64(shape), np.float64(rate)) if gm["np_scalar"] else (shape, rate)
    with warnings.catch_warnings(), np.errstate(all="ignore"):
        warnings.simplefilter("ignore")
        status, res = call(h.gamma_to_natural, *args)
    ctx.label("gamma:overflow_risk" if risk else "gamma:regular")
    if status != "ok":
        if risk:
            return [Violation("gamma:overflow:raised", f"gamma_to_natural({shape!r}, {rate!r}) raised {res!r} "
                              "(intermediate rate**(shape+2) / gamma(shape+2) / exp(...) out of double range)",
                              sizes=case["sizes"], breaks=case["breaks"], shape=shape, rate=rate)]
        return [Violation("gamma:raised:" + exc_key(res), f"gamma_to_natural({shape!r}, {rate!r}) raised {res!r}",
                          sizes=case["sizes"], breaks=case["breaks"])]
    res = np.asarray(res, dtype=float)
    if res.shape != (2,):
        return [Violation("gamma:shape", f"gamma_to_natural returned {res!r}")]
    vs, em, ev, ill = judge_gamma(res, X, shape, rate, "gamma_to_natural")
    if ill and not risk:
        ctx.label("gamma:ill_conditioned(model_tol>1e-8)")
    if not risk and np.isfinite(ev):
        k = "ill" if ill else "well"
        w = _GAMMA_WORST.get(k, 0.0)
        if max(em, ev) > w:
            _GAMMA_WORST[k] = max(em, ev)
            ctx.extra["gamma_worst_rel_err"] = [[a, b] for a, b in sorted(_GAMMA_WORST.items())]
    if risk:
        # Before the repair dc9000d every mismatch in this regime was the overflow defect. The
        # factors that overflowed are gone, so a mismatch here is now judged like any other (it is
        # the cancellation finding when the rounding model explains it, a new violation otherwise).
        out += vs
        return out
    out += vs
    if X.E == 1 and not vs:
        e1 = abs(res[0] - shape) / shape
        want = rate / (2 * case["sizes"][0])
        e2 = abs(res[1] - want) / want
        ctx.label("gamma:one_epoch")
        if max(e1, e2) > TOL_ONE_EPOCH:
            out.append(Violation("gamma:one_epoch_not_rescaled", f"constant size {case['sizes'][0]!r}: got "
                                 f"{res!r}, expected ({shape!r}, {want!r})"))
    if gm["quad"]:
        # oracle self-consistency (closed form vs quadrature); a failure is a harness error
        ctx.label("gamma:quad_crosscheck")
        m1, v1 = X.gamma_mapped_moments_closed(shape, rate)
        m2, v2 = X.gamma_mapped_moments_quad(shape, rate)
        if abs(m1 - m2) > 1e-12 * abs(m1) or abs(v1 - v2) > 1e-10 * abs(v1):
            raise AssertionError(f"oracle closed form vs quadrature disagree: {m1} {m2} {v1} {v2} for "
                                 f"{case['sizes']} {case['breaks']} {shape} {rate}")
    return out


# ---------------------------------------------------------------------------
# build_parameter_grid rows
# ---------------------------------------------------------------------------


def check_paramgrid(case, ctx):
    ts = case["ts"]
    sizes, breaks = case["sizes"], case["breaks"]
    ne = len(sizes)
    ctx.label("mode=paramgrid", f"epochs={ne}")
    if ne >= 2 and max(sizes) / min(sizes) >= 10:
        ctx.mark_nontrivial()
    if ne == 1 and case["as_float"]:
        pop = float(sizes[0])
    else:
        pop = demography.PopulationSizeHistory(np.array(sizes), np.array(breaks))
    with warnings.catch_warnings(), np.errstate(all="ignore"):
        warnings.simplefilter("ignore")
        status, grid = call(tsdate.build_parameter_grid, ts, pop)
    if status == "rejected":
        ctx.discard("paramgrid_rejected:" + str(grid)[:40])
        return []
    if status != "ok":
        ctx.discard("internal:" + exc_key(grid))
        return []
    X = E.ExactHistory(sizes, breaks)
    spans, _total, _ = CO.brute_force_spans(ts)
    is_s = node_is_sample(ts)
    out = []
    nodes = [u for u in range(ts.num_nodes) if not is_s[u]]
    if sorted(int(x) for x in grid.nonfixed_nodes) != nodes:
        out.append(Violation("paramgrid:nonfixed_nodes", "nonfixed_nodes is not the non-sample set"))
        return out
    for u in nodes[:: max(1, len(nodes) // 6)]:
        if u not in spans:
            continue
        m, v = CO.mixture_moments(spans[u])
        with mpmath.workdps(30):
            a, b = CO.params_from_moments("gamma", CO.frac_to_mpf(m), CO.frac_to_mpf(v))
            a, b = float(a), float(b)
        vs, em, ev, _ill = judge_gamma(np.asarray(grid[u], dtype=float), X, a, b,
                                       f"build_parameter_grid row of node {u}")
        for w in vs:
            out.append(Violation("paramgrid:" + w.key, w.msg, **w.detail))
        if vs:
            break
    return out


def finish(ctx, tier):
    v = ctx.extra.get("round_trip_worst_rel_err_by_log10_size_ratio")
    if isinstance(v, list):
        best = {}
        for k, x in v:
            best[int(k)] = max(best.get(int(k), 0.0), float(x))
        ctx.extra["round_trip_worst_rel_err_by_log10_size_ratio"] = {str(k): best[k] for k in sorted(best)}
    v = ctx.extra.get("gamma_worst_rel_err")
    if isinstance(v, list):
        best = {}
        for k, x in v:
            best[k] = max(best.get(k, 0.0), float(x))
        ctx.extra["gamma_worst_rel_err"] = best


def describe(case):
    d = dict(mode=case["mode"], sizes=case["sizes"], breaks=case["breaks"])
    if case["mode"] == "hist":
        d["gamma"] = {k: case["gamma"][k] for k in ("shape", "ref", "logmult")}
        d["n_pts"] = len(case["pts"])
    else:
        d["ts"] = G.ts_summary(case["ts"])
    return d
