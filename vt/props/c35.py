"""C35 — invalid inputs are rejected cleanly and valid ones never crash.

Oracle (I): for every (tree sequence, entry point, parameter set)
  * outcome is a result of the documented shape  ts | (ts, fit) | (ts, lik) | (ts, fit, lik)
    or a plain ValueError / NotImplementedError carrying a message;
  * members of the invalid-parameter classes listed in the statement MUST be rejected that way;
  * anything else (AssertionError, IndexError, TypeError from json, numba TypingError,
    tskit LibraryError, ...) is a violation, bucketed by vt.common.exc_key =
    (exception type, innermost tsdate frame, message prefix): one bucket per root cause.
The runner keeps going after a failure (collect-don't-stop); known root causes are listed in
known_findings.d/C35.json with tight regexes so that any *other* bucket still alarms.
"""

import contextlib
import io
import logging
import os
import warnings

import numpy as np
import tskit
from hypothesis import strategies as st

import tsdate

from vt.common import call, exc_key
from vt.gen import cfg_i as C
from vt.gen import ts as G
from vt.gen import ts_i as TI
from vt.runner import Violation

ID = "C35"
LEVEL = "exploration"
RULE = (
    "cases = (tree sequence from G-TS plus 0-3 drawn mutators incl. pathological ones: no/few "
    "mutations, deleted intervals with and without simplify, isolated samples, mutations above roots "
    "and on isolated samples, unary nodes, internal/historical samples, individuals of ploidy 1/2/3, "
    "times scaled by 1e-6..1e12, no edges) x (entry point date()/named method) x (drawn option set "
    "incl. numpy-typed values) x (one invalid-parameter class in 1 case of 4); non-trivial = the call "
    "ran the whole pipeline and returned (shape checked), or an invalid-class member was presented "
    "(rejection checked); distinct by SHA-1 of the encoded case"
)
ASSUMPTIONS = [
    "only parameters documented for the chosen method are passed (an unknown keyword is Python's "
    "TypeError, outside the property)",
    "plain ValueError/NotImplementedError (not subclasses such as tskit.LibraryError or numba errors) "
    "with a non-empty message are the only clean rejections",
    "'Ne together with population_size' and 'priors together with population_size' are treated as "
    "invalid-parameter classes (the code documents them as errors) in addition to the statement's list",
    "prior grids passed as `priors` are built with tsdate.build_prior_grid on the same tree sequence; "
    "if that construction itself fails the case is discarded (not an entry point of this property)",
    "a hard crash inside numba-compiled code (bounds checking is off) would kill the shard: reported "
    "by the runner as a harness error, not classified",
]


def budget(tier):
    if tier == "quick":
        return dict(examples=200, shards=4, min_nontrivial=200)
    return dict(examples=1500, shards=16, min_nontrivial=1000)


@st.composite
def strategy_(draw, tier):
    method = draw(st.sampled_from(C.METHODS + ["variational_gamma"]))
    mild = method != "variational_gamma" and draw(st.integers(0, 2)) > 0
    ts, applied = draw(TI.everything_ts(tier, mild=mild))
    hints = []
    if ts.num_edges and G.has_unary(ts):
        hints.append("unary")
    if any(len(ind.nodes) != 2 for ind in ts.individuals()) or not G.is_contemporaneous(ts):
        hints.append("not_diploid")
    cfg = draw(C.date_config_any(method=method, hints=tuple(hints)))
    return dict(ts=ts, mutators=applied, cfg=cfg)


def strategy(tier):
    return strategy_(tier)


FIT_CLASS = {
    "variational_gamma": lambda: tsdate.variational.ExpectationPropagation,
    "inside_outside": lambda: tsdate.discrete.BeliefPropagation,
    "maximization": lambda: tsdate.discrete.BeliefPropagation,
}


def build_call(case):
    """-> (fn, ts, kwargs) or raises _Unbuildable"""
    cfg = case["cfg"]
    ts = case["ts"]
    if cfg.get("strip_mutations"):
        ts = TI.strip_mutations(ts)
    kw = dict(cfg["kwargs"])
    if cfg["popsize"] is not None:
        kw["Ne" if cfg.get("use_Ne") else "population_size"] = C.build_popsize(cfg["popsize"])
    if cfg.get("Ne_extra") is not None:
        kw["Ne"] = cfg["Ne_extra"]
    if cfg["priors"] is not None:
        status, pri = call(C.build_priors, ts, cfg["priors"], kw.get("allow_unary"))
        if status != "ok":
            raise _Unbuildable(status + ":" + exc_key(pri))
        kw["priors"] = pri
    if cfg["entry"] == "date":
        fn = tsdate.date
        if cfg["method_kw"] is not None or cfg["method"] != "variational_gamma":
            kw["method"] = cfg["method_kw"]
    else:
        fn = getattr(tsdate, cfg["method"])
    return fn, ts, kw


class _Unbuildable(Exception):
    pass


@contextlib.contextmanager
def quiet():
    """no progress bars / warnings / log lines on the terminal"""
    prev_disable = logging.root.manager.disable
    logging.disable(logging.CRITICAL)
    with warnings.catch_warnings(), np.errstate(all="ignore"):
        warnings.simplefilter("ignore")
        with contextlib.redirect_stderr(io.StringIO()):
            try:
                yield
            finally:
                logging.disable(prev_disable)


def shape_violation(res, kw, method):
    want_fit = bool(kw.get("return_fit"))
    want_lik = bool(kw.get("return_likelihood"))
    n = 1 + want_fit + want_lik
    tag = f"fit={int(want_fit)},lik={int(want_lik)}"
    if n == 1:
        if not isinstance(res, tskit.TreeSequence):
            return Violation(f"shape:not_a_tree_sequence:{method}", f"{tag}: returned {type(res).__name__}")
        return None
    if not isinstance(res, tuple) or len(res) != n:
        return Violation(f"shape:wrong_tuple:{method}",
                         f"{tag}: expected a {n}-tuple, got {type(res).__name__}"
                         + (f" of length {len(res)}" if isinstance(res, tuple) else ""))
    if not isinstance(res[0], tskit.TreeSequence):
        return Violation(f"shape:first_not_ts:{method}", f"{tag}: first element is {type(res[0]).__name__}")
    i = 1
    if want_fit:
        if not isinstance(res[i], FIT_CLASS[method]()):
            return Violation(f"shape:fit_type:{method}", f"{tag}: element {i} is {type(res[i]).__name__}")
        i += 1
    if want_lik:
        lik = res[i]
        if not (lik is None or (isinstance(lik, (float, np.floating)) and not isinstance(lik, bool))):
            return Violation(f"shape:likelihood_type:{method}", f"{tag}: element {i} is {type(lik).__name__}")
    return None


def is_inf(x):
    try:
        return x is not None and float(x) == float("inf")
    except (TypeError, ValueError):
        return False


def check(case, ctx):
    cfg = case["cfg"]
    method = cfg["method"]
    invalid = cfg["invalid"]
    try:
        with quiet():
            fn, ts, kw = build_call(case)
    except _Unbuildable as e:
        ctx.discard("priors_unbuildable")
        ctx.label("priors_unbuildable:" + str(e)[:70])
        return []
    ctx.label("method=" + method, "entry=" + cfg["entry"], "class=" + (("invalid:" + invalid) if invalid else "valid"))
    for m in case["mutators"]:
        ctx.label("mutator=" + m)
    for f in TI.features(ts):
        ctx.label(f)
    for k, v in kw.items():
        if isinstance(v, np.generic):
            ctx.label(f"nptype:{k}={type(v).__name__}")
    if "population_size" in kw or "Ne" in kw:
        ctx.label("popsize=" + cfg["popsize"][0] if cfg["popsize"] else "popsize=Ne_extra")
    if "priors" in kw:
        ctx.label("priors=given")
    if kw.get("singletons_phased") is not None and not kw["singletons_phased"]:
        ctx.label("singletons_phased=False")
    if kw.get("probability_space") == "linear":
        ctx.label("probability_space=linear")
    if is_inf(kw.get("mutation_rate")):
        ctx.label("mutation_rate=inf")

    with quiet():
        status, res = call(fn, ts, **kw)

    what = f"{fn.__name__}(method={kw.get('method', method)!r}) on {G.ts_summary(ts)}"
    if status == "ok":
        if invalid:
            ctx.mark_nontrivial()
            ctx.label("outcome=invalid_accepted")
            bad = {k: v for k, v in kw.items() if k != "priors"}
            return [Violation(f"invalid_accepted:{invalid}:{method}",
                              f"invalid parameter class {invalid} was accepted and a result returned: {what}, "
                              f"kwargs={bad!r}")]
        ctx.label("outcome=ok", "ok:" + method)
        ctx.mark_nontrivial()
        v = shape_violation(res, kw, method)
        return [v] if v else []
    if status == "rejected":
        msg = str(res).strip()
        ctx.label("outcome=rejected" + ("(invalid class)" if invalid else ""))
        ctx.label(f"rejected:{type(res).__name__}:{msg[:48]}")
        if invalid:
            ctx.mark_nontrivial()
        if not msg:
            return [Violation(f"empty_message:{exc_key(res)}", f"{type(res).__name__} without a message: {what}")]
        return []
    ctx.label("outcome=internal_error")
    if invalid:
        ctx.mark_nontrivial()
    # bucket = (exception type, innermost tsdate frame, message prefix)[method(,probability space)];
    # an internal error on a member of an invalid class is attributed to the missing validation
    ctxt = method if method == "variational_gamma" else f"{method},{kw.get('probability_space') or 'logarithmic'}"
    key = f"{exc_key(res)}[{ctxt}]"
    if invalid:
        key = f"invalid_not_rejected:{invalid}:{method}:{type(res).__name__}"
    elif is_inf(kw.get("mutation_rate")):
        # +inf is "positive", so the statement does not list it as invalid; it gets its own buckets so
        # that the same assertion reached from finite input would still alarm
        key = f"mutation_rate_inf:{exc_key(res)}[{ctxt}]"
    show = {k: v for k, v in kw.items() if k != "priors"}
    return [Violation(key, f"{type(res).__name__}: {str(res)[:200]!r} from {what}, kwargs={show!r}, "
                      f"mutators={case['mutators']}, class={invalid or 'valid'}")]


def enumeration_inputs():
    """two fixed small inputs for the enumeration of the invalid classes: one with mutations
    that every method accepts, one without any mutation"""
    import msprime

    a = msprime.sim_ancestry(3, population_size=100, sequence_length=100, recombination_rate=5e-5,
                             random_seed=11)
    a = msprime.sim_mutations(a, rate=2e-4, random_seed=12)
    return [a, TI.strip_mutations(a)]


def extra(ctx, tier, shard):
    """Every invalid-parameter class of the statement x every pooled value x every method it applies to
    x both entry points, on two fixed inputs (deterministic; split over the shards)."""
    inputs = enumeration_inputs()
    cfgs = C.invalid_enumeration()
    nshards = max(1, getattr(ctx, "nshards", 1))
    k = 0
    for cfg in cfgs:
        for j, ts in enumerate(inputs):
            if cfg.get("strip_mutations") and j == 1:
                continue
            k += 1
            if k % nshards != shard % nshards:
                continue
            case = dict(ts=ts, mutators=["enumeration"], cfg=cfg)
            ctx._cur_nontrivial = False
            vs = check(case, ctx)
            ctx.evaluations += 1
            if ctx._cur_nontrivial:
                ctx.add_nontrivial(case)
            for v in vs:
                ctx.violation(v, case=case)
    ctx.extra["invalid_enumeration_cases"] = k if shard == 0 else 0


def describe(case):
    cfg = case["cfg"]
    kw = {k: (repr(v) if isinstance(v, np.generic) else v) for k, v in cfg["kwargs"].items()}
    return dict(method=cfg["method"], entry=cfg["entry"], invalid=cfg["invalid"], kwargs=kw,
                popsize=repr(cfg["popsize"]), priors=None if cfg["priors"] is None else "grid",
                mutators=case["mutators"], ts=G.ts_summary(case["ts"]))
