"""
Runner for the property checks: seeds, tiers, sharding, collect-don't-stop bucketing,
shrinking, replay files, known findings, evidence, exit codes.

Exit 0: property held on everything explored (KNOWN-FINDING lines may be printed).
Exit 1: at least one violation that known_findings.json does not list.
Exit 2: harness error (never a VIOLATION line).
"""

import argparse
import hashlib
import importlib
import json
import os
import pickle
import re
import shutil
import sys
import tempfile
import time
import traceback
from collections import Counter

ROOT = os.environ.get("VERIF_ROOT", os.path.dirname(os.path.dirname(os.path.abspath(__file__))))


OUT = os.environ.get("VT_OUT_DIR") or ROOT  # audits redirect evidence/replays to a scratch dir


class Violation:
    """One failed oracle clause. `key` names the root cause (bucket)."""

    def __init__(self, key, msg, **detail):
        self.key = str(key)
        self.msg = str(msg)
        self.detail = detail

    def __repr__(self):
        return f"Violation({self.key!r}, {self.msg!r})"


class Ctx:
    """Per-run (per-shard) counters; merged by the parent."""

    def __init__(self, prop_id, tier, seed):
        self.prop_id = prop_id
        self.tier = tier
        self.seed = seed
        self.evaluations = 0
        self.labels = Counter()
        self.discards = Counter()
        self.nontrivial = set()
        self.samples = []
        self.buckets = {}  # key -> dict(count, msg, case(encoded), size)
        self.harness_errors = []
        self.budget_exhausted = False
        self.extra = {}
        self.deadline = None
        self._cur_nontrivial = False
        self._cur_digest = None

    # -- API used by property modules ------------------------------------
    def label(self, *names):
        for n in names:
            self.labels[str(n)] += 1

    def discard(self, reason):
        self.discards[str(reason)] += 1

    def mark_nontrivial(self, flag=True):
        if flag:
            self._cur_nontrivial = True

    def add_nontrivial(self, obj):
        """Count a distinct non-trivial case directly (enumerations)."""
        self.nontrivial.add(_digest(obj))

    def sample(self, obj, cap=5):
        if len(self.samples) < cap:
            self.samples.append(obj)

    def violation(self, v, case=None):
        """Record a violation found outside the hypothesis pass (enumerations)."""
        self._record([v], case)

    def out_of_time(self):
        return self.deadline is not None and time.time() > self.deadline

    # -- internals -----------------------------------------------------------
    def _record(self, violations, case):
        enc = None
        for v in violations:
            b = self.buckets.get(v.key)
            if b is None:
                if enc is None and case is not None:
                    enc = encode_case(case)
                b = self.buckets[v.key] = dict(
                    count=0, msg=v.msg, detail=_jsonable(v.detail), case=enc
                )
            b["count"] += 1

    def merge(self, other):
        self.evaluations += other.evaluations
        self.labels.update(other.labels)
        self.discards.update(other.discards)
        self.nontrivial |= other.nontrivial
        for s in other.samples:
            if len(self.samples) < 6:
                self.samples.append(s)
        for k, b in other.buckets.items():
            if k in self.buckets:
                self.buckets[k]["count"] += b["count"]
            else:
                self.buckets[k] = b
        self.harness_errors += other.harness_errors
        self.budget_exhausted |= other.budget_exhausted
        for k, v in other.extra.items():
            if isinstance(v, bool):
                self.extra[k] = bool(self.extra.get(k, True)) and v
            elif isinstance(v, (int, float)) and isinstance(self.extra.get(k), (int, float)):
                self.extra[k] += v
            elif isinstance(v, list) and isinstance(self.extra.get(k), list):
                self.extra[k] += v
            else:
                self.extra.setdefault(k, v)


# --------------------------------------------------------------------------
# case encoding (replay files)
# --------------------------------------------------------------------------


def _jsonable(o):
    import numpy as np

    if isinstance(o, dict):
        return {str(k): _jsonable(v) for k, v in o.items()}
    if isinstance(o, (list, tuple)):
        return [_jsonable(v) for v in o]
    if isinstance(o, np.ndarray):
        return _jsonable(o.tolist())
    if isinstance(o, (np.floating, float)):
        f = float(o)
        return f if f == f and abs(f) != float("inf") else repr(f)
    if isinstance(o, (np.integer,)):
        return int(o)
    if isinstance(o, (np.bool_,)):
        return bool(o)
    if isinstance(o, bytes):
        return o.hex()
    if o is None or isinstance(o, (str, int, bool)):
        return o
    return repr(o)


def encode_case(o):
    """Loss-free encoding of a generated case to JSON-able data (tagged)."""
    import numpy as np
    import tskit

    if isinstance(o, tskit.TreeSequence):
        return {"__ts__": encode_case(o.dump_tables().asdict())}
    if isinstance(o, dict):
        if all(isinstance(k, str) for k in o):
            return {"__d__": {k: encode_case(v) for k, v in o.items()}}
        return {"__dk__": [[encode_case(k), encode_case(v)] for k, v in o.items()]}
    if isinstance(o, tuple):
        return {"__t__": [encode_case(v) for v in o]}
    if isinstance(o, list):
        return [encode_case(v) for v in o]
    if isinstance(o, np.ndarray):
        return {"__nd__": [str(o.dtype), list(o.shape), o.tobytes().hex()]}
    if isinstance(o, np.generic):
        return {"__np__": [str(o.dtype), o.tobytes().hex()]}
    if isinstance(o, float):
        return {"__f__": o.hex()}
    if isinstance(o, bytes):
        return {"__b__": o.hex()}
    if o is None or isinstance(o, (str, int, bool)):
        return o
    if hasattr(o, "__vt_encode__"):
        return {"__obj__": [type(o).__module__, type(o).__name__, encode_case(o.__vt_encode__())]}
    raise TypeError(f"cannot encode {type(o)}")


def decode_case(o):
    import numpy as np
    import tskit

    if isinstance(o, list):
        return [decode_case(v) for v in o]
    if isinstance(o, dict):
        if "__ts__" in o:
            return tskit.TableCollection.fromdict(decode_case(o["__ts__"])).tree_sequence()
        if "__d__" in o:
            return {k: decode_case(v) for k, v in o["__d__"].items()}
        if "__dk__" in o:
            return {decode_case(k): decode_case(v) for k, v in o["__dk__"]}
        if "__t__" in o:
            return tuple(decode_case(v) for v in o["__t__"])
        if "__nd__" in o:
            dt, shape, hx = o["__nd__"]
            return np.frombuffer(bytes.fromhex(hx), dtype=dt).reshape(shape).copy()
        if "__np__" in o:
            dt, hx = o["__np__"]
            return np.frombuffer(bytes.fromhex(hx), dtype=dt)[0]
        if "__f__" in o:
            return float.fromhex(o["__f__"])
        if "__b__" in o:
            return bytes.fromhex(o["__b__"])
        if "__obj__" in o:
            mod, name, state = o["__obj__"]
            cls = getattr(importlib.import_module(mod), name)
            return cls.__vt_decode__(decode_case(state))
        raise TypeError(f"bad encoded case {list(o)[:3]}")
    return o


def _digest(obj):
    try:
        data = json.dumps(encode_case(obj), sort_keys=True)
    except TypeError:
        data = repr(obj)
    return hashlib.sha1(data.encode()).hexdigest()


# --------------------------------------------------------------------------
# known findings
# --------------------------------------------------------------------------


def load_known(prop_id):
    out = []
    paths = [os.path.join(ROOT, "known_findings.json")]
    extra = os.path.join(ROOT, "known_findings.d")  # per-property drafts, merged before commit
    if os.path.isdir(extra):
        paths += sorted(os.path.join(extra, f) for f in os.listdir(extra) if f.endswith(".json"))
    for path in paths:
        if not os.path.exists(path):
            continue
        with open(path) as f:
            data = json.load(f)
        out += [e for e in data.get("findings", []) if e.get("property") == prop_id]
    return out


def match_known(entries, key):
    for e in entries:
        if e.get("status") != "known":
            continue
        if re.fullmatch(e["key"], key):
            return e
    return None


# --------------------------------------------------------------------------
# hypothesis passes
# --------------------------------------------------------------------------


def _settings(n, phases):
    from hypothesis import HealthCheck, settings

    return settings(
        max_examples=n,
        database=None,
        deadline=None,
        derandomize=False,
        report_multiple_bugs=False,
        phases=phases,
        suppress_health_check=list(HealthCheck),
        print_blob=False,
    )


def run_one(mod, ctx, case):
    ctx._cur_nontrivial = False
    try:
        violations = mod.check(case, ctx) or []
    except Exception as e:  # harness bug, never a VIOLATION
        tb = traceback.format_exc()
        if len(ctx.harness_errors) < 3:
            ctx.harness_errors.append(f"{type(e).__name__}: {e}\n{tb}")
        return None
    ctx.evaluations += 1
    if ctx._cur_nontrivial:
        ctx.nontrivial.add(_digest(case))
    if violations:
        ctx._record(violations, case)
    elif hasattr(mod, "describe") and len(ctx.samples) < 4 and (ctx._cur_nontrivial or ctx.evaluations > 20):
        try:
            ctx.samples.append(_jsonable(mod.describe(case)))
        except Exception:
            ctx.samples.append(_generic_describe(case))
    elif not hasattr(mod, "describe") and len(ctx.samples) < 2:
        ctx.samples.append(_generic_describe(case))
    return violations


def _generic_describe(case, depth=0):
    """fallback rendering of a case for the evidence samples"""
    import numpy as np
    import tskit

    if isinstance(case, tskit.TreeSequence):
        return dict(nodes=int(case.num_nodes), edges=int(case.num_edges), trees=int(case.num_trees),
                    sites=int(case.num_sites), mutations=int(case.num_mutations), L=float(case.sequence_length))
    if isinstance(case, dict) and depth < 3:
        return {str(k): _generic_describe(v, depth + 1) for k, v in list(case.items())[:20]}
    if isinstance(case, (list, tuple)) and depth < 3:
        return [_generic_describe(v, depth + 1) for v in list(case)[:8]]
    if isinstance(case, np.ndarray):
        return f"ndarray{case.shape} {case.dtype}"
    return _jsonable(case) if isinstance(case, (int, float, str, bool, type(None), np.generic)) else repr(case)[:80]


def generation_pass(mod, ctx, n, seed):
    import hypothesis
    from hypothesis import Phase, given

    strat = mod.strategy(ctx.tier)

    class _Stop(Exception):
        pass

    @hypothesis.seed(seed)
    @_settings(n, [Phase.generate])
    @given(strat)
    def t(case):
        if ctx.out_of_time():
            ctx.budget_exhausted = True
            raise _Stop()
        if len(ctx.harness_errors) >= 3:
            raise _Stop()
        run_one(mod, ctx, case)

    try:
        t()
    except _Stop:
        pass
    except hypothesis.errors.HypothesisException as e:
        ctx.harness_errors.append(f"hypothesis: {type(e).__name__}: {e}")


def shrink_pass(mod, tier, key, seed, n, budget_s):
    """Second pass: let Hypothesis shrink the first case that falls in bucket `key`.
    Returns the smallest encoded failing case seen (or None)."""
    import hypothesis
    from hypothesis import Phase, given

    strat = mod.strategy(tier)
    best = {"enc": None, "size": None, "msg": None, "detail": None}
    t_end = time.time() + budget_s
    sctx = Ctx(mod.ID, tier, seed)

    @hypothesis.seed(seed)
    @_settings(n, [Phase.generate, Phase.shrink])
    @given(strat)
    def t(case):
        if time.time() > t_end:
            return
        try:
            vs = mod.check(case, sctx) or []
        except Exception:
            return
        for v in vs:
            if v.key == key:
                enc = encode_case(case)
                size = len(json.dumps(enc))
                if best["size"] is None or size <= best["size"]:
                    best.update(enc=enc, size=size, msg=v.msg, detail=_jsonable(v.detail))
                raise AssertionError(key)

    try:
        t()
    except BaseException:
        pass
    return best


# --------------------------------------------------------------------------
# sharded execution
# --------------------------------------------------------------------------


def shard_seed(seed, shard):
    h = hashlib.sha256(f"{seed}:{shard}".encode()).digest()
    return int.from_bytes(h[:4], "big")


def run_shard(mod, tier, seed, shard, n, deadline, do_extra, nshards=1):
    ctx = Ctx(mod.ID, tier, seed)
    ctx.deadline = deadline
    ctx.shard = shard
    ctx.nshards = nshards
    if do_extra and hasattr(mod, "extra"):
        try:
            mod.extra(ctx, tier, shard)
        except Exception as e:
            ctx.harness_errors.append(f"extra: {type(e).__name__}: {e}\n{traceback.format_exc()}")
    if n > 0 and hasattr(mod, "strategy"):
        generation_pass(mod, ctx, n, shard_seed(seed, shard))
    return ctx


def run_all_shards(mod, tier, seed, shards, n, deadline):
    if shards <= 1:
        return run_shard(mod, tier, seed, 0, n, deadline, True, 1)
    tmp = tempfile.mkdtemp(prefix="vt_shards_", dir=os.path.join(ROOT, ".cache"))
    pids = []
    for s in range(shards):
        pid = os.fork()
        if pid == 0:
            code = 0
            try:
                ctx = run_shard(mod, tier, seed, s, n, deadline, True, shards)
                with open(os.path.join(tmp, f"{s}.pkl"), "wb") as f:
                    pickle.dump(ctx, f)
            except BaseException:
                traceback.print_exc()
                code = 3
            finally:
                sys.stdout.flush()
                sys.stderr.flush()
                os._exit(code)
        pids.append(pid)
    total = Ctx(mod.ID, tier, seed)
    for s, pid in enumerate(pids):
        _, status = os.waitpid(pid, 0)
        p = os.path.join(tmp, f"{s}.pkl")
        if os.path.exists(p):
            with open(p, "rb") as f:
                total.merge(pickle.load(f))
        else:
            total.harness_errors.append(f"shard {s} died (status {status})")
    shutil.rmtree(tmp, ignore_errors=True)
    return total


# --------------------------------------------------------------------------
# main
# --------------------------------------------------------------------------


def write_evidence(mod, ctx, tier, seed, wall, n_viol, known_hits, budget):
    cov = dict(
        evaluations=int(ctx.evaluations),
        distinct_nontrivial=len(ctx.nontrivial),
        rule=mod.RULE,
        samples=ctx.samples[:6],
        labels=dict(sorted(ctx.labels.items())),
        discarded=dict(sorted(ctx.discards.items())),
        known_finding_hits=known_hits,
        budget_exhausted=bool(ctx.budget_exhausted),
        budget=budget,
    )
    if getattr(mod, "EXHAUSTIVE", None) and ctx.extra.get("exhaustive"):
        cov["exhaustive"] = True
    for k, v in ctx.extra.items():
        if k != "exhaustive":
            cov[k] = _jsonable(v)
    ev = dict(
        property_id=mod.ID,
        tier=tier,
        seed=int(seed),
        level=getattr(mod, "LEVEL", "exploration"),
        coverage=cov,
        assumptions=list(getattr(mod, "ASSUMPTIONS", [])),
        wall_s=round(wall, 2),
        violations=int(n_viol),
    )
    os.makedirs(os.path.join(OUT, "evidence"), exist_ok=True)
    path = os.path.join(OUT, "evidence", f"{mod.ID}.json")
    with open(path + ".tmp", "w") as f:
        json.dump(ev, f, indent=1, sort_keys=True)
    os.replace(path + ".tmp", path)


def cmd_replay(mod, path):
    with open(path) as f:
        data = json.load(f)
    case = decode_case(data["case"])
    ctx = Ctx(mod.ID, "quick", 0)
    if data.get("kind") == "extra" and hasattr(mod, "replay_extra"):
        vs = mod.replay_extra(case, ctx) or []
    else:
        vs = mod.check(case, ctx) or []
    known = load_known(mod.ID)
    bad = [v for v in vs if not match_known(known, v.key)]
    for v in vs:
        print(("VIOLATION-DETAIL " if v in bad else "KNOWN ") + f"{v.key}: {v.msg}")
    if bad:
        print(f"VIOLATION property={mod.ID} replay={path}")
        return 1
    print(f"replay {path}: no unknown violation")
    return 0


def safe_name(key):
    return re.sub(r"[^A-Za-z0-9_.-]+", "_", key)[:80] + "_" + hashlib.sha1(key.encode()).hexdigest()[:8]


def main(argv=None):
    ap = argparse.ArgumentParser()
    ap.add_argument("prop")
    ap.add_argument("--tier", default=os.environ.get("VERIF_TIER", "quick"), choices=["quick", "thorough"])
    ap.add_argument("--replay")
    ap.add_argument("--examples", type=int)
    ap.add_argument("--shards", type=int)
    ap.add_argument("--no-shrink", action="store_true")
    args = ap.parse_args(argv)
    try:
        seed = int(os.environ.get("VERIF_SEED", "1"))
    except ValueError:
        seed = 1
    os.makedirs(os.path.join(ROOT, ".cache"), exist_ok=True)
    t0 = time.time()
    prop_id = args.prop.upper()
    try:
        mod = importlib.import_module(f"vt.props.{prop_id.lower()}")
    except Exception:
        traceback.print_exc()
        print(f"HARNESS-ERROR property={prop_id} cannot import check module")
        return 2
    if prop_id == "WARM":
        import tsdate  # noqa: F401

        print(f"JIT cache warm in {time.time() - t0:.0f}s")
        return 0
    if args.replay:
        try:
            return cmd_replay(mod, args.replay)
        except Exception:
            traceback.print_exc()
            print(f"HARNESS-ERROR property={prop_id} replay failed")
            return 2

    budget = dict(mod.budget(args.tier))
    if args.examples is not None:
        budget["examples"] = args.examples
    if args.shards is not None:
        budget["shards"] = args.shards
    budget.setdefault("shards", 1)
    budget.setdefault("examples", 100)
    budget.setdefault("time_s", 900 if args.tier == "quick" else 3 * 3600)
    deadline = t0 + budget["time_s"]
    try:
        if hasattr(mod, "setup"):
            mod.setup(args.tier)
        ctx = run_all_shards(mod, args.tier, seed, budget["shards"], budget["examples"], deadline)
        if hasattr(mod, "finish"):
            mod.finish(ctx, args.tier)
    except Exception:
        traceback.print_exc()
        print(f"HARNESS-ERROR property={prop_id} runner failed")
        return 2

    known = load_known(prop_id)
    known_hits = {}
    unknown = {}
    for key, b in ctx.buckets.items():
        e = match_known(known, key)
        if e is not None:
            known_hits[e["id"]] = known_hits.get(e["id"], 0) + b["count"]
        else:
            unknown[key] = b

    # shrink + write replays for unknown buckets
    replay_dir = os.path.join(OUT, "replays", prop_id)
    lines = []
    if unknown:
        os.makedirs(replay_dir, exist_ok=True)
    for i, (key, b) in enumerate(sorted(unknown.items(), key=lambda kv: -kv[1]["count"])):
        enc, msg, detail = b["case"], b["msg"], b["detail"]
        kind = "extra" if b.get("case") is not None and b.get("kind") == "extra" else "case"
        if (
            i < 3
            and not args.no_shrink
            and hasattr(mod, "strategy")
            and enc is not None
            and not getattr(mod, "NO_SHRINK", False)
        ):
            sb = 45 if args.tier == "quick" else 240
            for s in range(budget["shards"]):
                best = shrink_pass(mod, args.tier, key, shard_seed(seed, s), budget["examples"], sb)
                if best["enc"] is not None:
                    if len(json.dumps(best["enc"])) <= len(json.dumps(enc)):
                        enc, msg, detail = best["enc"], best["msg"], best["detail"]
                    break
                if time.time() - t0 > budget["time_s"] + 300:
                    break
        path = os.path.join(replay_dir, safe_name(key) + ".json")
        with open(path, "w") as f:
            json.dump(dict(property=prop_id, key=key, msg=msg, detail=detail, seed=seed, tier=args.tier,
                           kind=kind, count=b["count"], case=enc), f)
        lines.append((key, msg, path, b["count"]))

    wall = time.time() - t0
    try:
        write_evidence(mod, ctx, args.tier, seed, wall, len(unknown), known_hits, budget)
    except Exception:
        traceback.print_exc()
        print(f"HARNESS-ERROR property={prop_id} cannot write evidence")
        return 2

    print(f"[{prop_id}] tier={args.tier} seed={seed} evaluations={ctx.evaluations} "
          f"nontrivial={len(ctx.nontrivial)} wall={wall:.1f}s discards={dict(ctx.discards)}")
    print(f"[{prop_id}] labels: " + ", ".join(f"{k}={v}" for k, v in sorted(ctx.labels.items())))
    for e in known:
        if e.get("status") == "known":
            print(f"KNOWN-FINDING: property={prop_id} {e['what']} (hits this run: {known_hits.get(e['id'], 0)})")
    if ctx.harness_errors:
        for h in ctx.harness_errors[:3]:
            print("HARNESS-ERROR-DETAIL", h)
        print(f"HARNESS-ERROR property={prop_id} {len(ctx.harness_errors)} harness error(s)")
        return 2
    if lines:  # a violation found is reported even if the run was otherwise too small
        for key, msg, path, cnt in lines:
            print(f"VIOLATION-DETAIL [{cnt}x] {key}: {msg}")
        for key, msg, path, cnt in lines:
            print(f"VIOLATION property={prop_id} replay={os.path.relpath(path, ROOT) if OUT == ROOT else path}")
        return 1
    min_eval = budget.get("min_evaluations", 1)
    min_nt = budget.get("min_nontrivial", 2)
    if args.examples is not None or args.shards is not None:  # reduced development run
        min_eval, min_nt = 1, 2
    if ctx.evaluations < min_eval or len(ctx.nontrivial) < min_nt:
        if not ctx.budget_exhausted or ctx.evaluations == 0:
            print(f"HARNESS-ERROR property={prop_id} too few cases: evaluations={ctx.evaluations} "
                  f"nontrivial={len(ctx.nontrivial)}")
            return 2
    print(f"[{prop_id}] OK")
    return 0


if __name__ == "__main__":
    sys.exit(main())
