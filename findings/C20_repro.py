"""C20 / DESIGN F12: with the shape cap active the star-case posterior is not a uniform scaling
of the conjugate natural parameters.  Run: /venv/bin/python findings/C20_repro.py"""
import tskit
import tsdate

tb = tskit.TableCollection(sequence_length=1.0)
tb.nodes.add_row(flags=tskit.NODE_IS_SAMPLE, time=0.0)
tb.nodes.add_row(flags=tskit.NODE_IS_SAMPLE, time=0.0)
tb.nodes.add_row(flags=0, time=1.0)
tb.edges.add_row(0.0, 1.0, 2, 0)
tb.edges.add_row(0.0, 1.0, 2, 1)
for k, node in enumerate([0, 0, 1]):  # 2 mutations above sample 0, 1 above sample 1
    s = tb.sites.add_row(position=(k + 0.5) / 3, ancestral_state="0")
    tb.mutations.add_row(site=s, node=node, derived_state="1")
ts = tb.tree_sequence()
mu, max_shape = 0.01, 1.5
_, fit = tsdate.date(ts, mutation_rate=mu, method="variational_gamma", max_iterations=1, max_shape=max_shape,
                     regularise_roots=False, rescaling_intervals=0, return_fit=True)
post = fit.node_posteriors()[2]
alpha, beta = 3.0, mu * 2.0  # exact posterior Gamma(1 + 3, 0.02): shape 4 > max_shape
d = (max_shape - 1) / alpha
print("posterior shape", post["mean"] ** 2 / post["variance"], "(max_shape", max_shape, ")")
print("posterior mean ", post["mean"], " uniform scaling (d*alpha, d*beta) gives", max_shape / (d * beta))
