"""Minimal reproduction of the C23 finding (DESIGN F6): in variational_gamma's rescaling step an
unphased singleton that is finally placed on the *second* edge of its block is credited with the
smaller share of the mutation.  Run:  /venv/bin/python findings/C23_repro.py"""
import numpy as np
import tskit
from tsdate import variational

# one tree, two diploid individuals {0,1} and {2,3}:  ((0,2)4,(1,3)5)6
t = tskit.TableCollection(sequence_length=100)
i0, i1 = t.individuals.add_row(), t.individuals.add_row()
for ind in (i0, i0, i1, i1):
    t.nodes.add_row(flags=tskit.NODE_IS_SAMPLE, time=0, individual=ind)
for time in (1.0, 5.0, 6.0):
    t.nodes.add_row(time=time)
for p, c in ((4, 0), (4, 2), (5, 1), (5, 3), (6, 4), (6, 5)):
    t.edges.add_row(0, 100, p, c)
# five mutations above node 5 (long branch 6->5, so node 5 is young and branch 5->1 short), three
# singletons of individual 0 (input phase: node 0) and one mutation above node 4
for k, node in enumerate([5, 5, 5, 5, 5, 0, 0, 0, 4]):
    s = t.sites.add_row(position=10 * k + 1, ancestral_state="A")
    t.mutations.add_row(site=s, node=node, derived_state="T")
t.sort()
ts = t.tree_sequence()

fit = variational.ExpectationPropagation(ts, mutation_rate=0.01, singletons_phased=False)
before = fit.edge_likelihoods[:, 0].copy()
fit.infer(ep_iterations=10, max_shape=1000, rescale_intervals=1, rescale_iterations=1,
          regularise=True, rescale_segsites=True)
for m in np.flatnonzero(fit.mutation_blocks != tskit.NULL):
    e0, e1 = fit.block_edges[fit.mutation_blocks[m]]
    placed = fit.mutation_edges[m]
    print(f"singleton {m}: P(placed edge)={fit.mutation_phase[m]:.4f}, placed on edge {placed} "
          f"(block edges {e0},{e1})")
print("counts before rescaling:", before)
print("counts used by rescaling:", fit.edge_likelihoods[:, 0])
# observed on the unchanged tree: the three singletons are placed on edge 0 (4->0) with probability
# 0.7047 each, yet edge 0 is credited 3*0.2953 = 0.886 and the other candidate edge 2 (5->1) 2.114.
# Expected by the property: edge 0 -> 2.114, edge 2 -> 0.886.
