"""Minimal repro for C38 / DESIGN F14: ignore_oldest_root=True skips the edges whose parent is
node `num_nodes - 1`, not those of the oldest root.  Same tree, two numberings of the two
internal nodes: the results differ.   Run: /venv/bin/python findings/C38_repro.py"""
import numpy as np
import tskit
import tsdate


def tree(root_id, inner_id):
    t = tskit.TableCollection(sequence_length=1)
    for _ in range(3):
        t.nodes.add_row(flags=tskit.NODE_IS_SAMPLE, time=0)
    times = {inner_id: 1.0, root_id: 2.0}
    for u in sorted(times):
        t.nodes.add_row(time=times[u])
    for p, c in ((inner_id, 0), (inner_id, 1), (root_id, inner_id), (root_id, 2)):
        t.edges.add_row(0, 1, p, c)
    for i, node in enumerate((0, inner_id, 2)):
        s = t.sites.add_row(position=(i + 0.5) / 3, ancestral_state="0")
        t.mutations.add_row(site=s, node=node, derived_state="1")
    t.sort()
    return t.tree_sequence()


grid = np.array([0.0, 0.5, 1.0, 2.0])
for root_id, inner_id in ((4, 3), (3, 4)):
    ts = tree(root_id, inner_id)
    pr = tsdate.build_prior_grid(ts, population_size=0.5, timepoints=grid)
    _, fit = tsdate.inside_outside(ts, mutation_rate=1.0, priors=pr, ignore_oldest_root=True, return_fit=True)
    post = np.asarray(fit.node_posteriors()).view(float).reshape(ts.num_nodes, -1)
    print(f"root is node {root_id}: posterior of the inner node {inner_id} =", np.round(post[inner_id], 6))
# expected: identical rows.  Observed: they differ (when the root is node 3 nothing is ignored)
