#!/bin/bash
# usage: tools/test_commit.sh <sha> : run the pinned suite against a scratch worktree of <sha>
sha=$1
wt=/tmp/vt_wt_$sha
rm -rf $wt; git -C /repo worktree add -f --detach $wt $sha >/dev/null 2>&1
cd $wt
export XDG_CACHE_HOME=$wt/.xdg PYTHONPATH=$wt TSDATE_ENABLE_NUMBA_CACHE=1 NUMBA_CACHE_DIR=$wt/.numba
/venv/bin/python -m pytest -q -p no:cacheprovider --timeout=3600 -x -n ${NPROC:-4} tests > /tmp/vt_test_$sha.log 2>&1
rc=$?
tail -3 /tmp/vt_test_$sha.log | tr '\n' ' '; echo " [rc=$rc sha=$sha]"
cd /; git -C /repo worktree remove --force $wt
exit $rc
