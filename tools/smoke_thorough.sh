#!/bin/bash
# thorough tier with a reduced budget (code paths of the thorough tier, not its depth)
out=$1; par=${2:-3}; ex=${3:-40}
mkdir -p $out; cd /verif
ids=$(jq -r '.checks[].property_id' MANIFEST.json)
run_one() { id=$1; s=$(date +%s); ./check $id --tier thorough --examples $ex --shards 4 --no-shrink > $out/$id.log 2>&1; rc=$?; e=$(date +%s); echo "$id rc=$rc wall=$((e-s))s" >> $out/summary.txt; }
export -f run_one; export out ex
echo $ids | tr ' ' '\n' | xargs -P $par -I{} bash -c 'run_one {}'
sort $out/summary.txt
