#!/bin/bash
# usage: tools/apply_fix.sh <patch> "<commit message starting with fix:>"
# applies the patch to /repo, commits it (one small unguarded commit), then runs the pinned
# suite on a scratch worktree of that commit (outside /repo and /verif) in the background.
set -e
patch=$(readlink -f "$1"); msg="$2"
cd /repo
patch -p1 --no-backup-if-mismatch -i "$patch"
git add -A tsdate
git -c user.name=builder -c user.email=builder@example.com commit -qm "$msg"
sha=$(git rev-parse --short HEAD)
echo "committed $sha: $msg"
