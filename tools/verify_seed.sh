#!/bin/bash
# usage: tools/verify_seed.sh <name> <srcdir> "<check ids>" : confirm a seeded change (demo passes
# without / fails with the change, pinned suite green with it) in a scratch worktree, then run checks on it.
name=$1; src=$2; ids=$3
dst=/verif/seeded/$name; mkdir -p $dst
cp $src/patch.diff $src/demo.py $src/meta.json $dst/ 2>/dev/null
wt=/tmp/vs_$name; rm -rf $wt; git -C /repo worktree add -f --detach $wt HEAD >/dev/null 2>&1
cd $wt
export XDG_CACHE_HOME=$wt/.xdg PYTHONPATH=$wt TSDATE_ENABLE_NUMBA_CACHE=1 NUMBA_CACHE_DIR=$wt/.numba
log=$dst/verify.log; : > $log
/venv/bin/python $dst/demo.py > /tmp/vs_$name.base.out 2>&1; rc0=$?
echo "demo on unmodified tree: exit $rc0" >> $log
git apply $dst/patch.diff 2>> $log || echo "PATCH DOES NOT APPLY" >> $log
export NUMBA_CACHE_DIR=$wt/.numba2
/venv/bin/python $dst/demo.py > /tmp/vs_$name.mut.out 2>&1; rc1=$?
echo "demo with the change: exit $rc1 :: $(tail -1 /tmp/vs_$name.mut.out | cut -c1-300)" >> $log
/venv/bin/python -m pytest -q -p no:cacheprovider --timeout=3600 -n 4 tests > /tmp/vs_$name.tests.out 2>&1
echo "pinned suite with the change: $(tail -1 /tmp/vs_$name.tests.out)" >> $log
cd /; git -C /repo worktree remove --force $wt
cd /verif
/venv/bin/python -m vt.audit $dst/patch.diff $ids > /tmp/vs_$name.audit.out 2>&1
grep "^== \|AUDIT\|VIOLATION-DETAIL" /tmp/vs_$name.audit.out | cut -c1-260 >> $log
cat $log
