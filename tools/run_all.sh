#!/bin/bash
# usage: tools/run_all.sh <outdir> [seed] [parallel] : run every quick check, collect exit codes
out=$1; seed=${2:-1}; par=${3:-3}
mkdir -p $out
cd /verif
ids=$(jq -r '.checks[].property_id' MANIFEST.json)
run_one() { id=$1; s=$(date +%s); VERIF_SEED=$seed ./check $id --tier quick > $out/$id.log 2>&1; rc=$?; e=$(date +%s); echo "$id rc=$rc wall=$((e-s))s" >> $out/summary.txt; }
export -f run_one; export out seed
echo $ids | tr ' ' '\n' | xargs -P $par -I{} bash -c 'run_one {}'
sort $out/summary.txt
