#!/bin/bash
# usage: tools/run_thorough.sh <outdir> <deadline-epoch> [ids...] : full thorough tier, one check at a time (16 shards)
out=$1; deadline=$2; shift 2
mkdir -p $out; cd /verif
for id in "$@"; do
  [ $(date +%s) -gt $deadline ] && break
  s=$(date +%s); ./check $id --tier thorough --no-shrink > $out/$id.log 2>&1; rc=$?; e=$(date +%s)
  echo "$id rc=$rc wall=$((e-s))s $(grep -o 'evaluations=[0-9]* nontrivial=[0-9]*' $out/$id.log | head -1)" >> $out/summary.txt
  cp evidence/$id.json $out/$id.evidence.json 2>/dev/null
done
