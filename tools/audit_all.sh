#!/bin/bash
# usage: tools/audit_all.sh <outdir> [parallel] [pattern] : audit every mutants/*.patch against the
# check of the property named by its file-name prefix; one line per mutant in <outdir>/audit.tsv
out=$1; par=${2:-3}; pat=${3:-C}
mkdir -p $out
cd /verif
audit_one() {
  f=$1; b=$(basename $f .patch); id=${b%%_*}
  s=$(date +%s)
  /venv/bin/python -m vt.audit $f $id > $out/$b.log 2>&1
  e=$(date +%s)
  res=$(grep -o "caught_by=.*" $out/$b.log | head -1)
  rc=$(grep -o "exit=[0-9]*" $out/$b.log | head -1)
  [ -z "$res" ] && res="NO-RESULT $(grep -m1 -o 'PATCH FAILED' $out/$b.log)"
  echo -e "$b\t$id\t$rc\t$((e-s))s\t$res" >> $out/audit.tsv
}
export -f audit_one; export out
ls mutants/${pat}*.patch | xargs -P $par -I{} bash -c 'audit_one {}'
sort $out/audit.tsv
